import AmVerif.Model.Bytes
/-!
# C16 — SharedBytes / SharedString are immutable shared buffers

Statements are about `AmVerif.Model.Bytes`, whose steps are built from the definitions
regenerated from `src/utils/bytes.rs` / `src/utils/string.rs` (`AmVerif.Gen.Bytes`).
Modelled, not proved: the weak memory model (why Release / Acquire suffices is the textbook
argument; `C16_orderings_ok` only checks the extracted orderings against it), the allocator.
-/
namespace AmVerif.Props.C16
open AmVerif.Gen AmVerif.Model AmVerif.Model.Bytes

/-! ## Layouts -/

theorem inner_layout_val : Inner_layout = ⟨32, 8⟩ := by decide

/-- `get_inner_layout len` is the header followed by `len` bytes, no padding, alignment 8; it
panics exactly when that size cannot be rounded up to the alignment within `isize::MAX`. -/
theorem get_inner_layout_eq (len : Nat) :
    SharedBytes_get_inner_layout len =
      if 32 + len + 7 ≤ Layout.isizeMax then some ⟨32 + len, 8⟩ else none := by
  simp only [SharedBytes_get_inner_layout, Layout.extend, inner_layout_val, Layout.paddingNeededFor,
    Layout.fromSizeAlign]
  by_cases h : 32 + len + 7 ≤ Layout.isizeMax
  · simp [h]
  · simp [h]

/-- The empty inline layout *is* the bare header layout — this is what makes `from_vec` of a
`Vec` without allocation (capacity 0) free its header correctly through the "inline" branch. -/
theorem inline_zero_is_header : SharedBytes_get_inner_layout 0 = some Inner_layout := by decide

/-- **Dealloc layout = alloc layout on every branch.**
`from_slice`: whenever it allocates with layout `l`, `drop_slow` (reading the header it wrote)
frees no `Vec` and deallocates with `l`. `from_vec`: it allocates with the header layout; with a
non-zero capacity `drop_slow` drops the `Vec` and deallocates with the header layout; with capacity
zero (hence length zero) it drops no `Vec` and still deallocates with the header layout. -/
theorem C16_layouts_match :
    (∀ len l, SharedBytes_from_slice_layout len = some l →
      SharedBytes_drop_slow_plan (SharedBytes_from_slice_header len).len
        (SharedBytes_from_slice_header len).capacity = (false, some l)) ∧
    (∀ len cap, cap ≠ 0 →
      SharedBytes_drop_slow_plan (SharedBytes_from_vec_header len cap).len
        (SharedBytes_from_vec_header len cap).capacity = (true, SharedBytes_from_vec_layout)) ∧
    (∀ len, len ≤ 0 →
      SharedBytes_drop_slow_plan (SharedBytes_from_vec_header len 0).len
        (SharedBytes_from_vec_header len 0).capacity = (false, SharedBytes_from_vec_layout)) := by
  refine ⟨?_, ?_, ?_⟩
  · intro len l h
    simp only [SharedBytes_from_slice_layout] at h
    simp [SharedBytes_drop_slow_plan, SharedBytes_from_slice_header, h]
  · intro len cap h
    simp [SharedBytes_drop_slow_plan, SharedBytes_from_vec_header, SharedBytes_from_vec_layout, h]
  · intro len h
    have : len = 0 := by omega
    subst this
    simp [SharedBytes_drop_slow_plan, SharedBytes_from_vec_header, SharedBytes_from_vec_layout,
      inline_zero_is_header]

example : SharedBytes_drop_slow_plan 5 0 = (false, some ⟨37, 8⟩) := by decide
example : SharedBytes_drop_slow_plan 5 9 = (true, some ⟨32, 8⟩) := by decide

/-- The header block is large and aligned enough for `Inner` (what `ptr.write(Inner{..})` needs),
and the inline bytes start right behind it (`ptr.add(1)`). -/
theorem C16_header_fits (len : Nat) (l : Layout) (h : SharedBytes_from_slice_layout len = some l) :
    Inner_layout.size + SharedBytes_from_slice_copy len ≤ l.size ∧ l.align = Inner_layout.align := by
  simp only [SharedBytes_from_slice_layout, get_inner_layout_eq] at h
  split at h
  · cases h; simp [inner_layout_val, SharedBytes_from_slice_copy]
  · cases h

/-! ## Orderings and RMW kinds (table lemmas over the extracted facts) -/

/-- `clone` and `drop` are each exactly ONE read-modify-write on `count` (not load + store), an
increment resp. a decrement by one; `drop` goes to `drop_slow` iff it saw 1. -/
theorem C16_single_rmw (c : Nat) :
    SharedBytes_clone c = ((), c + 1) ∧ SharedBytes_drop c = (decide (c = 1), c - 1) ∧
    (bytesAtomics.lookup .clone).map (·.map (·.1)) = some [.fetchAdd] ∧
    (bytesAtomics.lookup .drop).map (·.map (·.1)) = some [.fetchSub] := by
  refine ⟨?_, ?_, by decide, by decide⟩
  · simp [SharedBytes_clone, Atom.fetchAdd]
  · simp only [SharedBytes_drop, Atom.fetchSub]; congr

/-- The textbook requirement for reference counting (Boost / `Arc`): the decrement is at least a
Release; before the memory is freed the last owner performs an Acquire on the same location (a
separate Acquire load in `drop_slow`, or the decrement itself being AcqRel); the increment may be
Relaxed. Checked on the orderings the source has today. -/
def orderingsOk (tbl : List (BytesFn × List (AtomPrim × Ord))) : Bool :=
  match tbl.lookup .clone, tbl.lookup .drop, tbl.lookup .dropSlow with
  | some [(.fetchAdd, _)], some [(.fetchSub, od)], some sync =>
    od.isRelease && (od.isAcquire || sync.any fun p => p.1 == .load && p.2.isAcquire)
  | _, _, _ => false

theorem C16_orderings_ok :
    orderingsOk bytesAtomics = true ∧
    bytesAtomics.lookup .dropSlow = some SharedBytes_drop_slow_sync := by decide

/-- The check is not vacuous: the classic wrong variants are rejected. -/
example : orderingsOk [(.clone, [(.fetchAdd, .Relaxed)]), (.drop, [(.fetchSub, .Relaxed)]), (.dropSlow, [(.load, .Acquire)])] = false := by decide
example : orderingsOk [(.clone, [(.fetchAdd, .Relaxed)]), (.drop, [(.fetchSub, .Release)]), (.dropSlow, [(.load, .Relaxed)])] = false := by decide
example : orderingsOk [(.clone, [(.fetchAdd, .Relaxed)]), (.drop, [(.fetchSub, .Release)]), (.dropSlow, [])] = false := by decide
example : orderingsOk [(.clone, [(.fetchAdd, .Relaxed)]), (.drop, [(.fetchSub, .AcqRel)]), (.dropSlow, [])] = true := by decide

/-! ## Contents -/

/-- A buffer as a constructor leaves it: live, one owner, no frees, no faults; and what
`drop_slow` will compute from its header agrees with what was allocated. -/
structure WellFormed (o : Obj) : Prop where
  count : o.count = 1
  live : o.hdrLive = true
  frees : o.hdrFrees = 0 ∧ o.vecFrees = 0
  faults : o.faults = []
  lay : (SharedBytes_drop_slow_plan o.len o.capacity).2 = some o.hdrLayout
  vecT : (SharedBytes_drop_slow_plan o.len o.capacity).1 = true →
    o.vecLive = true ∧ o.capacity = o.vecCap ∧ o.data = .vec
  vecF : (SharedBytes_drop_slow_plan o.len o.capacity).1 = false → o.vecLive = false

theorem fromSlice_spec (src : List Byte) (o : Obj) (h : fromSlice src = some o) :
    WellFormed o ∧ o.deref = some src := by
  unfold fromSlice at h
  split at h
  · cases h
  · rename_i lay hl
    cases h
    have hp := C16_layouts_match.1 _ _ hl
    simp only [SharedBytes_from_slice_header] at hp
    refine ⟨⟨?_, ?_, ?_, ?_, ?_, ?_, ?_⟩, ?_⟩
    all_goals simp [mkObj, SharedBytes_from_slice_header, SharedBytes_from_slice_copy, hp,
      Obj.deref, Obj.dataLive, Obj.field, SharedBytes_deref]

theorem fromVec_spec (cap : Nat) (src : List Byte) (o : Obj) (h : fromVec cap src = some o) :
    WellFormed o ∧ o.deref = some src := by
  unfold fromVec at h
  split at h
  · rename_i hle
    simp only [SharedBytes_from_vec_layout] at h
    cases h
    by_cases hc : cap = 0
    · subst hc
      have hp := C16_layouts_match.2.2 src.length hle
      simp only [SharedBytes_from_vec_header, SharedBytes_from_vec_layout] at hp
      refine ⟨⟨?_, ?_, ?_, ?_, ?_, ?_, ?_⟩, ?_⟩
      all_goals simp [mkObj, SharedBytes_from_vec_header, hp, Obj.deref, Obj.dataLive, Obj.field,
        SharedBytes_deref]
    · have hp := C16_layouts_match.2.1 src.length cap hc
      simp only [SharedBytes_from_vec_header, SharedBytes_from_vec_layout] at hp
      refine ⟨⟨?_, ?_, ?_, ?_, ?_, ?_, ?_⟩, ?_⟩
      all_goals simp [mkObj, SharedBytes_from_vec_header, hp, hc, Obj.deref, Obj.dataLive, Obj.field,
        SharedBytes_deref]
  · cases h

/-- **Every constructor path dereferences to exactly its input** (slice, `Vec` of any capacity
including 0 and excess, `Box<[u8]>`, both `Cow` arms, iterator), and leaves a well-formed buffer. -/
theorem C16_content (p : BytesSrc) (cap : Nat) (src : List Byte) (o : Obj)
    (h : construct p cap src = some o) : o.deref = some src ∧ WellFormed o := by
  unfold construct at h
  split at h
  · exact ⟨(fromSlice_spec _ _ h).2, (fromSlice_spec _ _ h).1⟩
  · exact ⟨(fromVec_spec _ _ _ h).2, (fromVec_spec _ _ _ h).1⟩
  · cases h

/-- The constructors do succeed on everything that can exist in memory: any slice whose length
leaves room for the 32-byte header below `isize::MAX`, any `Vec` (`len ≤ capacity`). Every public
path except `From<&SharedBytes>` (a clone) builds a buffer. -/
theorem C16_constructible (p : BytesSrc) (cap : Nat) (src : List Byte)
    (hp : p ≠ .sharedRef) (hlen : src.length + 39 ≤ Layout.isizeMax) (hcap : src.length ≤ cap) :
    (construct p cap src).isSome = true := by
  have hs : (fromSlice src).isSome = true := by
    simp only [fromSlice, SharedBytes_from_slice_layout, get_inner_layout_eq]
    have : 32 + src.length + 7 ≤ Layout.isizeMax := by omega
    simp [this]
  have hv : ∀ c, src.length ≤ c → (fromVec c src).isSome = true := by
    intro c hc; simp [fromVec, hc, SharedBytes_from_vec_layout]
  have tbl : ∀ q : BytesSrc, q ≠ .sharedRef →
      bytesFrom.lookup q = some .fromSlice ∨ bytesFrom.lookup q = some .fromVec := by
    intro q; cases q <;> decide
  rcases tbl p hp with e | e
  · simpa only [construct, e] using hs
  · simp only [construct, e]
    split
    · exact hv _ (Nat.le_refl _)
    · exact hv _ hcap

example : ((construct .vec 0 []).map (·.deref)) = some (some []) := by decide
example : ((construct .boxed 99 [1, 2, 3]).map (·.capacity)) = some 3 := by decide
example : ((construct .cowBorrowed 0 [1, 2, 3]).map (·.hdrLayout)) = some ⟨35, 8⟩ := by decide

/-! ## Reference counting under every interleaving -/

/-- What never changes after construction. -/
def Frozen (o0 o : Obj) : Prop :=
  o.len = o0.len ∧ o.capacity = o0.capacity ∧ o.data = o0.data ∧ o.mem = o0.mem ∧
  o.hdrLayout = o0.hdrLayout ∧ o.vecCap = o0.vecCap

/-- Allocation state while nothing has been freed yet. -/
def Untouched (o0 o : Obj) : Prop :=
  o.hdrLive = true ∧ o.vecLive = o0.vecLive ∧ o.hdrFrees = 0 ∧ o.vecFrees = 0

/-- The phases of a buffer's life. -/
def Phase (o0 : Obj) (s : Sys) : Prop :=
  -- shared: some handles, nobody in `drop_slow`, `count` = number of live handles
  (s.handles ≠ [] ∧ s.slow = [] ∧ s.obj.count = s.handles.length ∧ Untouched o0 s.obj) ∨
  -- the last owner is in `drop_slow`, before / after its Acquire, nothing freed yet
  (∃ t st, (st = Stage.sync ∨ st = Stage.freeData) ∧ s.handles = [] ∧ s.slow = [(t, st)] ∧
    s.obj.count = 0 ∧ Untouched o0 s.obj) ∨
  -- the data is released, the header not yet
  (∃ t, s.handles = [] ∧ s.slow = [(t, Stage.dealloc)] ∧ s.obj.count = 0 ∧ s.obj.hdrLive = true ∧
    s.obj.vecLive = false ∧ s.obj.hdrFrees = 0 ∧ s.obj.vecFrees = (if o0.vecLive then 1 else 0)) ∨
  -- released: every block freed exactly once
  (s.handles = [] ∧ s.slow = [] ∧ s.obj.hdrLive = false ∧ s.obj.vecLive = false ∧
    s.obj.hdrFrees = 1 ∧ s.obj.vecFrees = (if o0.vecLive then 1 else 0))

structure Inv (o0 : Obj) (s : Sys) : Prop where
  frozen : Frozen o0 s.obj
  faults : s.obj.faults = []
  reads : ∀ r ∈ s.reads, r = o0.deref
  phase : Phase o0 s

theorem deref_congr (o0 o : Obj) (f : Frozen o0 o) (hl : o.hdrLive = o0.hdrLive)
    (hv : o.vecLive = o0.vecLive) : o.deref = o0.deref := by
  obtain ⟨h1, h2, h3, h4, h5, h6⟩ := f
  simp [Obj.deref, Obj.dataLive, Obj.field, SharedBytes_deref, h1, h3, h4, h6, hl, hv]

theorem hasHandle_nil (s : Sys) (h : Nat) (hn : s.handles = []) : hasHandle s h = false := by
  simp [hasHandle, hn]

theorem ownerOf_nil (s : Sys) (h : Nat) (hn : s.handles = []) : ownerOf s h = none := by
  simp [ownerOf, hn]

theorem inv_init (o : Obj) (t : Tid) (w : WellFormed o) : Inv o (init o t) := by
  refine ⟨⟨rfl, rfl, rfl, rfl, rfl, rfl⟩, w.faults, by simp [init], Or.inl ?_⟩
  simp [init, w.count, Untouched, w.live, w.frees.1, w.frees.2]

theorem touch_live (o : Obj) (h : o.hdrLive = true) : touchHeader o = o := by
  simp [touchHeader, h]

theorem freeVec_ok (o : Obj) (h1 : o.vecLive = true) (h2 : o.capacity = o.vecCap) (h3 : o.data = .vec) :
    o.freeVec = { o with vecLive := false, vecFrees := o.vecFrees + 1 } := by
  simp [Obj.freeVec, h1, h2, h3]

theorem dealloc_ok (o : Obj) (lay : Layout) (h : o.hdrLive = true) (hl : lay = o.hdrLayout) :
    o.dealloc lay = { o with hdrLive := false, hdrFrees := o.hdrFrees + 1 } := by
  simp [Obj.dealloc, h, hl]

theorem length_pos_of_ne_nil {α} {l : List α} (h : l ≠ []) : 0 < l.length :=
  List.length_pos_iff.mpr h

/-- One-step preservation. -/
theorem inv_step (o0 : Obj) (w : WellFormed o0) (s : Sys) (a : Act) (I : Inv o0 s) :
    Inv o0 (step s a) := by
  obtain ⟨fr, fl, rd, ph⟩ := I
  have fr' := fr
  obtain ⟨f1, f2, f3, f4, f5, f6⟩ := fr'
  cases a with
  | clone h t =>
    rcases ph with ⟨hne, hs, hc, hu⟩ | ⟨t', st, _, hn, _⟩ | ⟨t', hn, _⟩ | ⟨hn, _⟩
    · by_cases hh : hasHandle s h = true
      · have hl := hu.1
        simp only [step, hh, if_true, touch_live _ hl, (C16_single_rmw _).1]
        refine ⟨fr, fl, rd, Or.inl ⟨by simp, hs, by simp [hc], hu⟩⟩
      · simp only [step, hh]; exact ⟨fr, fl, rd, Or.inl ⟨hne, hs, hc, hu⟩⟩
    · simp only [step, hasHandle_nil s h hn]
      exact ⟨fr, fl, rd, Or.inr (Or.inl ⟨t', st, ‹_›, hn, ‹_›⟩)⟩
    · simp only [step, hasHandle_nil s h hn]
      exact ⟨fr, fl, rd, Or.inr (Or.inr (Or.inl ⟨t', hn, ‹_›⟩))⟩
    · simp only [step, hasHandle_nil s h hn]
      exact ⟨fr, fl, rd, Or.inr (Or.inr (Or.inr ⟨hn, ‹_›⟩))⟩
  | deref h t =>
    by_cases hh : hasHandle s h = true
    · rcases ph with ⟨hne, hs, hc, hu⟩ | ⟨t', st, _, hn, _⟩ | ⟨t', hn, _⟩ | ⟨hn, _⟩
      · simp only [step, hh, if_true]
        refine ⟨fr, fl, ?_, Or.inl ⟨hne, hs, hc, hu⟩⟩
        intro r hr
        rcases List.mem_cons.mp hr with e | e
        · rw [e]; exact deref_congr o0 s.obj fr (by rw [hu.1, w.live]) hu.2.1
        · exact rd r e
      · rw [hasHandle_nil s h hn] at hh; cases hh
      · rw [hasHandle_nil s h hn] at hh; cases hh
      · rw [hasHandle_nil s h hn] at hh; cases hh
    · simp only [step, hh]; exact ⟨fr, fl, rd, ph⟩
  | move h t =>
    by_cases hh : hasHandle s h = true
    · rcases ph with ⟨hne, hs, hc, hu⟩ | ⟨t', st, _, hn, _⟩ | ⟨t', hn, _⟩ | ⟨hn, _⟩
      · simp only [step, hh, if_true]
        refine ⟨fr, fl, rd, Or.inl ⟨?_, hs, by simpa using hc, hu⟩⟩
        simpa using hne
      · rw [hasHandle_nil s h hn] at hh; cases hh
      · rw [hasHandle_nil s h hn] at hh; cases hh
      · rw [hasHandle_nil s h hn] at hh; cases hh
    · simp only [step, hh]; exact ⟨fr, fl, rd, ph⟩
  | drop h =>
    rcases ph with ⟨hne, hs, hc, hu⟩ | ⟨t', st, _, hn, _⟩ | ⟨t', hn, _⟩ | ⟨hn, _⟩
    · cases ho : ownerOf s h with
      | none => simp only [step, ho]; exact ⟨fr, fl, rd, Or.inl ⟨hne, hs, hc, hu⟩⟩
      | some t =>
        have hpos : 0 < s.handles.length := length_pos_of_ne_nil hne
        have hcz : s.obj.count ≠ 0 := by omega
        -- the handle is in the list, so `eraseP` shortens it by one
        have hmem : ∃ p, p ∈ s.handles ∧ (p.1 == h) = true := by
          simp only [ownerOf, Option.map_eq_some_iff] at ho
          obtain ⟨p, hp, _⟩ := ho
          exact ⟨p, List.mem_of_find?_eq_some hp, by simpa using List.find?_some hp⟩
        obtain ⟨p, hp1, hp2⟩ := hmem
        have hlen : (s.handles.eraseP (·.1 == h)).length = s.handles.length - 1 :=
          List.length_eraseP_of_mem hp1 hp2
        simp only [step, ho, touch_live _ hu.1, hcz, if_false, (C16_single_rmw _).2.1]
        by_cases h1 : s.obj.count = 1
        · have hnil : s.handles.eraseP (·.1 == h) = [] := by
            apply List.eq_nil_of_length_eq_zero; omega
          refine ⟨fr, fl, rd, Or.inr (Or.inl ⟨t, .sync, Or.inl rfl, hnil, by simp [h1, hs], by simp [h1], hu⟩)⟩
        · have hne' : s.handles.eraseP (·.1 == h) ≠ [] := by
            intro e; rw [e] at hlen; simp at hlen; omega
          refine ⟨fr, fl, rd, Or.inl ⟨hne', by simp [h1, hs], by simp [hlen, hc], hu⟩⟩
    · simp only [step, ownerOf_nil s h hn]
      exact ⟨fr, fl, rd, Or.inr (Or.inl ⟨t', st, ‹_›, hn, ‹_›⟩)⟩
    · simp only [step, ownerOf_nil s h hn]
      exact ⟨fr, fl, rd, Or.inr (Or.inr (Or.inl ⟨t', hn, ‹_›⟩))⟩
    · simp only [step, ownerOf_nil s h hn]
      exact ⟨fr, fl, rd, Or.inr (Or.inr (Or.inr ⟨hn, ‹_›⟩))⟩
  | cont t =>
    rcases ph with ⟨hne, hs, hc, hu⟩ | ⟨t', st, hst, hn, hsl, hc, hu⟩ | ⟨t', hn, hsl, hc, hl, hv, hf1, hf2⟩ | ⟨hn, hs, hrest⟩
    · simp only [step, hs, List.find?_nil]; exact ⟨fr, fl, rd, Or.inl ⟨hne, hs, hc, hu⟩⟩
    · by_cases ht : (t' == t) = true
      · rcases hst with rfl | rfl
        · simp only [step, hsl, List.find?_cons, ht, List.eraseP_cons, List.eraseP_nil, touch_live _ hu.1]
          exact ⟨fr, fl, rd, Or.inr (Or.inl ⟨t, .freeData, Or.inr rfl, hn, rfl, hc, hu⟩)⟩
        · simp only [step, hsl, List.find?_cons, ht, List.eraseP_cons, List.eraseP_nil, touch_live _ hu.1]
          rw [f1, f2]
          cases hplan : (SharedBytes_drop_slow_plan o0.len o0.capacity).1 with
          | true =>
            obtain ⟨v1, v2, v3⟩ := w.vecT hplan
            have e1 : s.obj.vecLive = true := by rw [hu.2.1, v1]
            have e2 : s.obj.capacity = s.obj.vecCap := by rw [f2, f6, v2]
            have e3 : s.obj.data = .vec := by rw [f3, v3]
            simp only [if_true, freeVec_ok _ e1 e2 e3]
            refine ⟨⟨f1, f2, f3, f4, f5, f6⟩, fl, rd, Or.inr (Or.inr (Or.inl ⟨t, hn, ?_, hc, hu.1, ?_, hu.2.2.1, ?_⟩))⟩
            · simp
            · simp
            · simp [hu.2.2.2, v1]
          | false =>
            have v1 := w.vecF hplan
            simp only [Bool.false_eq_true, if_false]
            refine ⟨fr, fl, rd, Or.inr (Or.inr (Or.inl ⟨t, hn, rfl, hc, hu.1, by rw [hu.2.1, v1], hu.2.2.1, ?_⟩))⟩
            simp [hu.2.2.2, v1]
      · simp only [step, hsl, List.find?_cons, ht, List.find?_nil]
        exact ⟨fr, fl, rd, Or.inr (Or.inl ⟨t', st, hst, hn, hsl, hc, hu⟩)⟩
    · by_cases ht : (t' == t) = true
      · simp only [step, hsl, List.find?_cons, ht, List.eraseP_cons, List.eraseP_nil]
        rw [f1, f2, w.lay]
        simp only [dealloc_ok _ _ hl f5.symm]
        refine ⟨⟨f1, f2, f3, f4, f5, f6⟩, fl, rd, Or.inr (Or.inr (Or.inr ⟨hn, ?_, ?_, hv, ?_, hf2⟩))⟩
        · simp
        · simp
        · simp [hf1]
      · simp only [step, hsl, List.find?_cons, ht, List.find?_nil]
        exact ⟨fr, fl, rd, Or.inr (Or.inr (Or.inl ⟨t', hn, hsl, hc, hl, hv, hf1, hf2⟩))⟩
    · simp only [step, hs, List.find?_nil]
      exact ⟨fr, fl, rd, Or.inr (Or.inr (Or.inr ⟨hn, hs, hrest⟩))⟩

theorem inv_run (o0 : Obj) (w : WellFormed o0) (s : Sys) (σ : List Act) (I : Inv o0 s) :
    Inv o0 (run s σ) := by
  induction σ generalizing s with
  | nil => exact I
  | cons a as ih => exact ih _ (inv_step o0 w s a I)

/-- **The buffer is released exactly once, after the last handle is dropped, under every
interleaving.** For every construction path, every capacity, every content, and every list of
atomic steps of any number of threads (clones through shared references, derefs, moves of handles
between threads, drops, the three steps of `drop_slow`):
* no fault ever occurs — no access to a freed header or data, no double free, no `dealloc` /
  `Vec::from_raw_parts` with a layout / capacity other than the one allocated, no count underflow;
* every `deref`, through whichever handle, at whatever moment, yields exactly the source bytes;
* while any handle is live, `count` is the number of live handles and nothing has been freed;
* each block is freed at most once; a freed header implies that no handle is left;
* once no handle is left and nobody is inside `drop_slow`, every block has been freed exactly
  once (nothing leaks). -/
theorem C16_freed_once_after_last (p : BytesSrc) (cap : Nat) (src : List Byte) (o : Obj)
    (hc : construct p cap src = some o) (t0 : Tid) (σ : List Act) :
    let s := run (init o t0) σ
    s.obj.faults = [] ∧
    (∀ r ∈ s.reads, r = some src) ∧
    (s.handles ≠ [] → s.obj.count = s.handles.length ∧ s.obj.hdrLive = true ∧
      s.obj.hdrFrees = 0 ∧ s.obj.vecFrees = 0 ∧ s.obj.deref = some src) ∧
    s.obj.hdrFrees ≤ 1 ∧ s.obj.vecFrees ≤ 1 ∧
    (s.obj.hdrLive = false → s.handles = []) ∧
    (s.handles = [] → s.slow = [] →
      s.obj.released = true ∧ s.obj.hdrFrees = 1 ∧ s.obj.vecFrees = (if o.vecLive then 1 else 0)) := by
  intro s
  obtain ⟨hd, w⟩ := C16_content p cap src o hc
  have I : Inv o s := inv_run o w _ σ (inv_init o t0 w)
  obtain ⟨fr, fl, rd, ph⟩ := I
  refine ⟨fl, fun r hr => by rw [rd r hr, hd], ?_, ?_, ?_, ?_, ?_⟩
  · intro hne
    rcases ph with ⟨_, _, hcnt, hu⟩ | ⟨_, _, _, hn, _⟩ | ⟨_, hn, _⟩ | ⟨hn, _⟩
    · exact ⟨hcnt, hu.1, hu.2.2.1, hu.2.2.2,
        by rw [deref_congr o s.obj fr (by rw [hu.1, w.live]) hu.2.1, hd]⟩
    · exact absurd hn hne
    · exact absurd hn hne
    · exact absurd hn hne
  · rcases ph with ⟨_, _, _, hu⟩ | ⟨_, _, _, _, _, _, hu⟩ | ⟨_, _, _, _, _, _, h, _⟩ | ⟨_, _, _, _, h, _⟩
    · rw [hu.2.2.1]; omega
    · rw [hu.2.2.1]; omega
    · rw [h]; omega
    · rw [h]; omega
  · rcases ph with ⟨_, _, _, hu⟩ | ⟨_, _, _, _, _, _, hu⟩ | ⟨_, _, _, _, _, _, _, h⟩ | ⟨_, _, _, _, _, h⟩
    · rw [hu.2.2.2]; omega
    · rw [hu.2.2.2]; omega
    · rw [h]; split <;> omega
    · rw [h]; split <;> omega
  · intro hfreed
    rcases ph with ⟨_, _, _, hu⟩ | ⟨_, _, _, hn, _⟩ | ⟨_, hn, _⟩ | ⟨hn, _⟩
    · rw [hu.1] at hfreed; cases hfreed
    · exact hn
    · exact hn
    · exact hn
  · intro hn hs
    rcases ph with ⟨hne, _⟩ | ⟨_, _, _, _, hsl, _⟩ | ⟨_, _, hsl, _⟩ | ⟨_, _, h1, h2, h3, h4⟩
    · exact absurd hn hne
    · rw [hs] at hsl; cases hsl
    · rw [hs] at hsl; cases hsl
    · exact ⟨by simp [Obj.released, h1, h2], h3, h4⟩

theorem cont_slow (s : Sys) (t : Tid) (st : Stage) (h : s.slow = [(t, st)]) :
    (step s (.cont t)).handles = s.handles ∧
    (step s (.cont t)).slow = match st with
      | .sync => [(t, .freeData)] | .freeData => [(t, .dealloc)] | .dealloc => [] := by
  cases st <;> simp [step, h]

theorem cont_idle (s : Sys) (t : Tid) (h : s.slow = []) : step s (.cont t) = s := by
  simp [step, h]

/-- **The last drop does free**: in every reachable state without live handles, the thread that
performed the last decrement needs at most its three `drop_slow` steps (always enabled, nobody can
interfere) to release every block. -/
theorem C16_last_drop_releases (p : BytesSrc) (cap : Nat) (src : List Byte) (o : Obj)
    (hc : construct p cap src = some o) (t0 : Tid) (σ : List Act)
    (hn : (run (init o t0) σ).handles = []) :
    ∃ t, (run (run (init o t0) σ) [.cont t, .cont t, .cont t]).obj.released = true := by
  obtain ⟨_, w⟩ := C16_content p cap src o hc
  have I : Inv o (run (init o t0) σ) := inv_run o w _ σ (inv_init o t0 w)
  generalize run (init o t0) σ = s at hn I
  -- whatever `t`, the state after the three steps satisfies the invariant
  have fin : ∀ t, (run s [.cont t, .cont t, .cont t]).handles = [] →
      (run s [.cont t, .cont t, .cont t]).slow = [] →
      (run s [.cont t, .cont t, .cont t]).obj.released = true := by
    intro t h1 h2
    have I' := inv_run o w s [.cont t, .cont t, .cont t] I
    rcases I'.phase with ⟨hne, _⟩ | ⟨_, _, _, _, hsl, _⟩ | ⟨_, _, hsl, _⟩ | ⟨_, _, e1, e2, _⟩
    · exact absurd h1 hne
    · rw [h2] at hsl; cases hsl
    · rw [h2] at hsl; cases hsl
    · simp [Obj.released, e1, e2]
  rcases I.phase with ⟨hne, _⟩ | ⟨t, st, hst, _, hsl, _⟩ | ⟨t, _, hsl, _⟩ | ⟨_, hs, _⟩
  · exact absurd hn hne
  · refine ⟨t, fin t ?_ ?_⟩ <;> rcases hst with rfl | rfl
    · have a := cont_slow s t _ hsl
      have b := cont_slow _ t _ a.2
      have c := cont_slow _ t _ b.2
      simp only [run]; rw [c.1, b.1, a.1, hn]
    · have a := cont_slow s t _ hsl
      have b := cont_slow _ t _ a.2
      have c := cont_idle _ t b.2
      simp only [run]; rw [c, b.1, a.1, hn]
    · have a := cont_slow s t _ hsl
      have b := cont_slow _ t _ a.2
      have c := cont_slow _ t _ b.2
      simp only [run]; exact c.2
    · have a := cont_slow s t _ hsl
      have b := cont_slow _ t _ a.2
      have c := cont_idle _ t b.2
      simp only [run]; rw [c]; exact b.2
  · refine ⟨t, fin t ?_ ?_⟩
    · have a := cont_slow s t _ hsl
      have b := cont_idle _ t a.2
      simp only [run]; rw [b, b, a.1, hn]
    · have a := cont_slow s t _ hsl
      have b := cont_idle _ t a.2
      simp only [run]; rw [b, b]; exact a.2
  · refine ⟨0, fin 0 ?_ ?_⟩
    · simp only [run, cont_idle s 0 hs]; exact hn
    · simp only [run, cont_idle s 0 hs]; exact hs

/-! Non-vacuity: concrete executions (two threads; the clone is dropped on another thread; the
last drop happens on thread 7 which then runs `drop_slow`). -/
def demo (p : BytesSrc) (cap : Nat) (src : List Byte) (σ : List Act) : Option Sys :=
  (construct p cap src).map fun o => run (init o 0) σ

example : ((demo .vec 8 [1, 2, 3] [.clone 0 7, .deref 1 7, .drop 0, .move 1 3, .deref 1 3, .drop 1,
      .cont 3, .cont 3, .cont 3]).map fun s =>
      (s.obj.faults, s.reads, s.obj.hdrFrees, s.obj.vecFrees, s.obj.released)) =
    some ([], [some [1, 2, 3], some [1, 2, 3]], 1, 1, true) := by decide
example : ((demo .slice 0 [] [.drop 0, .cont 0, .cont 0, .cont 0]).map fun s =>
      (s.obj.faults, s.obj.hdrFrees, s.obj.vecFrees, s.obj.released)) = some ([], 1, 0, true) := by decide
/-- The ledger does notice a wrong plan: freeing a slice-built buffer through the `Vec` branch. -/
example : ((fromSlice [1, 2]).map fun o => ({ o with capacity := 2 } : Obj).freeVec.faults) =
    some [.vecMismatch] := by decide

/-! ## SharedString -/

/-- **`from_utf8` accepts exactly the valid UTF-8 byte strings, and keeps the bytes.**
Validity is Lean core's `ByteArray.IsValidUTF8`: being the UTF-8 encoding of a list of Unicode
scalar values. -/
theorem C16_string_from_utf8 (b : List Byte) :
    ((fromUtf8 b).isSome = true ↔ ∃ cs : List Char, toBA b = cs.utf8Encode) ∧
    (∀ s, fromUtf8 b = some s → s = b) := by
  unfold fromUtf8
  constructor
  · constructor
    · intro h
      split at h
      · rename_i hv; obtain ⟨m, hm⟩ := hv; exact ⟨m, hm⟩
      · cases h
    · rintro ⟨m, hm⟩
      have : (toBA b).IsValidUTF8 := ⟨m, hm⟩
      simp [this]
  · intro s h
    split at h
    · cases h; rfl
    · cases h

theorem maxValid_spec (b : List Byte) (n : Nat) :
    (toBA (b.take (maxValid b n))).IsValidUTF8 ∧ maxValid b n ≤ n ∧
    ∀ k, k ≤ n → (toBA (b.take k)).IsValidUTF8 → k ≤ maxValid b n := by
  induction n with
  | zero =>
    refine ⟨?_, Nat.le_refl _, ?_⟩
    · simp only [maxValid, List.take_zero]; exact ⟨[], rfl⟩
    · intro k hk _; simpa [maxValid] using hk
  | succ n ih =>
    by_cases hv : (toBA (b.take (n + 1))).IsValidUTF8
    · have e : maxValid b (n + 1) = n + 1 := by simp only [maxValid]; exact if_pos hv
      rw [e]
      exact ⟨hv, Nat.le_refl _, fun k hk _ => hk⟩
    · have e : maxValid b (n + 1) = maxValid b n := by simp only [maxValid]; exact if_neg hv
      rw [e]
      refine ⟨ih.1, Nat.le_succ_of_le ih.2.1, ?_⟩
      intro k hk hkv
      by_cases e : k = n + 1
      · subst e; exact absurd hkv hv
      · exact ih.2.2 k (by omega) hkv

/-- The position reported on rejection (`Utf8Error::valid_up_to`) is the length of the longest
valid prefix; it is the whole length exactly when the input is accepted. -/
theorem C16_string_valid_up_to (b : List Byte) :
    (toBA (b.take (validUpTo b))).IsValidUTF8 ∧
    (∀ k, k ≤ b.length → (toBA (b.take k)).IsValidUTF8 → k ≤ validUpTo b) ∧
    ((fromUtf8 b).isSome = true ↔ validUpTo b = b.length) := by
  have h := maxValid_spec b b.length
  refine ⟨h.1, h.2.2, ?_⟩
  unfold fromUtf8 validUpTo
  constructor
  · intro hs
    split at hs
    · rename_i hv
      have := h.2.2 b.length (Nat.le_refl _) (by simpa using hv)
      omega
    · cases hs
  · intro he
    have hv := h.1
    rw [he, List.take_length] at hv
    simp [hv]

example : fromUtf8 [0xe2, 0x82, 0xac] = some [0xe2, 0x82, 0xac] := by decide
example : fromUtf8 [0xe2, 0x82] = none ∧ validUpTo [0x41, 0xe2, 0x82] = 1 := by decide
example : fromUtf8 [0xed, 0xa0, 0x80] = none ∧ fromUtf8 [0xc0, 0x80] = none ∧
    fromUtf8 [0xf4, 0x90, 0x80, 0x80] = none := by decide

/-- Every place that builds a `SharedString` without validating is fed the bytes of a `String` /
`&str` parameter, or is the `unsafe fn from_utf8_unchecked` (whose contract is the caller's);
`from_utf8` validates exactly the bytes it wraps; nothing in the crate calls the unchecked
constructor. (Extracted facts.) -/
theorem C16_string_sites :
    (∀ p ∈ stringSites, p.2 ≠ .unknown ∧ (p.2 = .unsafeFn → p.1 = .fromUtf8Unchecked)) ∧
    stringSites.lookup .fromUtf8 = some .validated ∧
    stringSites.lookup .fromString = some .stringBytes ∧
    stringSites.lookup .fromStr = some .strBytes ∧
    stringUncheckedCalls = 0 := by decide

/-! ## Comparison, order, hash -/

theorem lexCmp_eq_iff (a b : List Byte) : lexCmp a b = .eq ↔ a = b := by
  induction a generalizing b with
  | nil => cases b <;> simp [lexCmp]
  | cons x xs ih =>
    cases b with
    | nil => simp [lexCmp]
    | cons y ys =>
      simp only [lexCmp]
      by_cases h1 : x < y
      · simp only [h1, if_true]
        constructor
        · intro h; cases h
        · intro h; cases h; exact absurd h1 (UInt8.lt_irrefl _)
      · by_cases h2 : y < x
        · simp only [h1, h2, if_true, if_false]
          constructor
          · intro h; cases h
          · intro h; cases h; exact absurd h2 (UInt8.lt_irrefl _)
        · have : x = y := UInt8.le_antisymm (UInt8.not_lt.mp h2) (UInt8.not_lt.mp h1)
          simp [ih, this]

theorem lexCmp_swap (a b : List Byte) : (lexCmp a b).swap = lexCmp b a := by
  induction a generalizing b with
  | nil => cases b <;> simp [lexCmp]
  | cons x xs ih =>
    cases b with
    | nil => simp [lexCmp]
    | cons y ys =>
      simp only [lexCmp]
      by_cases h1 : x < y
      · have h2 : ¬ y < x := UInt8.not_lt.mpr (UInt8.le_of_lt h1)
        simp [h1, h2]
      · by_cases h2 : y < x
        · simp [h1, h2]
        · simp [h1, h2, ih]

/-- **Both types compare, order and hash like the slices they hold**: every `==`, `cmp`,
`partial_cmp` and `hash` impl between two values of the type works on the dereferenced slices
(directly, or through another listed impl) — extracted facts; and the slice order the model uses
is the lexicographic one: `Equal` exactly on equal contents, antisymmetric. -/
theorem C16_cmp_like_slices :
    (∀ p ∈ bytesCmp, p.2 ≠ .other) ∧ (∀ p ∈ stringCmp, p.2 ≠ .other) ∧
    (∀ i : CmpImpl, (bytesCmp.lookup i).isSome ∧ (stringCmp.lookup i).isSome) ∧
    (∀ a b, lexCmp a b = .eq ↔ a = b) ∧ (∀ a b, (lexCmp a b).swap = lexCmp b a) := by
  refine ⟨by decide, by decide, ?_, lexCmp_eq_iff, lexCmp_swap⟩
  intro i; cases i <;> decide

example : lexCmp [1, 2] [1, 2, 0] = .lt ∧ lexCmp [2] [1, 255] = .gt ∧ lexCmp [] [] = .eq := by decide

end AmVerif.Props.C16
