import AmVerif.Gen.TabFacts
import AmVerif.Model.Source
/-!
# C11 — directory assets list exactly the matching ids of a directory / subtree

Statements are over an arbitrary source view `v` (so they hold for `sem t`, for every archive
index, for the file-system view, and for a view with unreadable directories); C04 connects the
views of the four sources to the tree.
-/
namespace AmVerif.Props.C11
open AmVerif.Model.Source

/-! ## `sort_unstable(); dedup()` -/

/-- `a < b` in Rust's `str` order. -/
abbrev Lt (a b : Id) : Prop := strLt a b = true

theorem strLt_irrefl (a : Id) : strLt a a = false := by
  induction a with
  | nil => rfl
  | cons x xs ih => simp [strLt, ih]

theorem strLt_trans {a b c : Id} (h1 : Lt a b) (h2 : Lt b c) : Lt a c := by
  induction a generalizing b c with
  | nil =>
    cases b with
    | nil => simp [Lt, strLt] at h1
    | cons y ys => cases c with
      | nil => simp [Lt, strLt] at h2
      | cons z zs => rfl
  | cons x xs ih =>
    cases b with
    | nil => simp [Lt, strLt] at h1
    | cons y ys =>
      cases c with
      | nil => simp [Lt, strLt] at h2
      | cons z zs =>
        simp only [Lt, strLt] at h1 h2 ⊢
        by_cases hxy : x.toNat < y.toNat
        · by_cases hyz : y.toNat < z.toNat
          · have : x.toNat < z.toNat := Nat.lt_trans hxy hyz
            simp [this]
          · simp only [hyz, if_false] at h2
            by_cases hzy : z.toNat < y.toNat
            · simp [hzy] at h2
            · have : y.toNat = z.toNat := by omega
              have : x.toNat < z.toNat := by omega
              simp [this]
        · simp only [hxy, if_false] at h1
          by_cases hyx : y.toNat < x.toNat
          · simp [hyx] at h1
          · simp only [hyx, if_false] at h1
            have hxy' : x.toNat = y.toNat := by omega
            by_cases hyz : y.toNat < z.toNat
            · have : x.toNat < z.toNat := by omega
              simp [this]
            · simp only [hyz, if_false] at h2
              by_cases hzy : z.toNat < y.toNat
              · simp [hzy] at h2
              · simp only [hzy, if_false] at h2
                have h3 : ¬ x.toNat < z.toNat := by omega
                have h4 : ¬ z.toNat < x.toNat := by omega
                simp only [h3, h4, if_false]
                exact ih h1 h2

/-- Neither smaller: equal (the order is total on strings). -/
theorem strLt_total {a b : Id} (h1 : strLt a b = false) (h2 : strLt b a = false) : a = b := by
  induction a generalizing b with
  | nil => cases b with
    | nil => rfl
    | cons y ys => simp [strLt] at h1
  | cons x xs ih =>
    cases b with
    | nil => simp [strLt] at h2
    | cons y ys =>
      simp only [strLt] at h1 h2
      by_cases hxy : x.toNat < y.toNat
      · simp [hxy] at h1
      · by_cases hyx : y.toNat < x.toNat
        · simp [hyx] at h2
        · simp only [hxy, hyx, if_false] at h1 h2
          have : x.toNat = y.toNat := by omega
          have hxy : x = y := Char.toNat_inj.mp this
          rw [hxy, ih h1 h2]

/-- Strictly ascending: sorted and without duplicates. -/
def StrictSorted : List Id → Prop
  | [] => True
  | [_] => True
  | a :: b :: rest => Lt a b ∧ StrictSorted (b :: rest)

theorem mem_insertSorted (x y : Id) (l : List Id) : y ∈ insertSorted x l ↔ y = x ∨ y ∈ l := by
  induction l with
  | nil => simp [insertSorted]
  | cons z zs ih =>
    simp only [insertSorted]
    by_cases h1 : strLt x z = true
    · simp [h1]
    · simp only [h1]
      by_cases h2 : strLt z x = true
      · simp only [h2, if_true, if_false, Bool.false_eq_true]
        rw [List.mem_cons, ih, List.mem_cons]
        constructor
        · rintro (h | h | h)
          · exact Or.inr (Or.inl h)
          · exact Or.inl h
          · exact Or.inr (Or.inr h)
        · rintro (h | h | h)
          · exact Or.inr (Or.inl h)
          · exact Or.inl h
          · exact Or.inr (Or.inr h)
      · have : x = z := strLt_total (by simpa using h1) (by simpa using h2)
        simp only [h2]
        subst this
        simp

theorem strictSorted_tail {a : Id} {l : List Id} (h : StrictSorted (a :: l)) : StrictSorted l := by
  cases l with
  | nil => trivial
  | cons b rest => exact h.2

theorem strictSorted_insert (x : Id) (l : List Id) (h : StrictSorted l) : StrictSorted (insertSorted x l) := by
  induction l with
  | nil => simp [insertSorted, StrictSorted]
  | cons z zs ih =>
    simp only [insertSorted]
    by_cases h1 : strLt x z = true
    · simp only [h1, if_true]; exact ⟨h1, h⟩
    · simp only [h1]
      by_cases h2 : strLt z x = true
      · simp only [h2, if_true]
        have hz := ih (strictSorted_tail h)
        -- the head of `insertSorted x zs` is `x` or the head of `zs`, both above `z`
        cases zs with
        | nil => exact ⟨h2, trivial⟩
        | cons w ws =>
          simp only [insertSorted] at hz ⊢
          by_cases h3 : strLt x w = true
          · simp only [h3, if_true] at hz ⊢; exact ⟨h2, hz⟩
          · simp only [h3] at hz ⊢
            by_cases h4 : strLt w x = true
            · simp only [h4, if_true] at hz ⊢; exact ⟨h.1, hz⟩
            · simp only [h4] at hz ⊢; exact ⟨h.1, hz⟩
      · simp only [h2]; exact h

theorem strictSorted_sortDedup (l : List Id) : StrictSorted (sortDedup l) := by
  induction l with
  | nil => trivial
  | cons x xs ih => exact strictSorted_insert x _ ih

theorem mem_sortDedup (l : List Id) (y : Id) : y ∈ sortDedup l ↔ y ∈ l := by
  induction l with
  | nil => simp [sortDedup]
  | cons x xs ih =>
    have : sortDedup (x :: xs) = insertSorted x (sortDedup xs) := rfl
    rw [this, mem_insertSorted, ih]; simp

/-! ## `Directory<T>` -/

/-- `load_dir::<T>(d)`: the ids are strictly sorted (no duplicates) and are exactly the ids of the
files listed directly in `d` that carry one of `T`'s extensions. The empty-string extension,
overlapping extension lists and the root `""` are instances. -/
theorem C11_dir_ids (v : View) (exts : List Name) (d : Id) (ids : List Id) (h : dirLoad v exts d = .ok ids) :
    StrictSorted ids ∧
    ∃ es, v.readDir d = .ok es ∧ ∀ id, id ∈ ids ↔ ∃ e ∈ exts, Entry.file id e ∈ es := by
  unfold dirLoad selectIds at h
  cases hr : v.readDir d with
  | err e => simp [hr] at h
  | ok es =>
    simp only [hr] at h
    injection h with h
    subst h
    refine ⟨strictSorted_sortDedup _, es, rfl, fun id => ?_⟩
    rw [mem_sortDedup, List.mem_filterMap]
    constructor
    · rintro ⟨e, he, h⟩
      cases e with
      | dir _ => simp at h
      | file i x =>
        by_cases hx : x ∈ exts
        · simp only [hx, if_true, Option.some.injEq] at h; subst h; exact ⟨x, hx, he⟩
        · simp [hx] at h
    · rintro ⟨x, hx, he⟩
      exact ⟨.file id x, he, by simp [hx]⟩

example : dirLoad (sem ⟨[⟨[], ['m'], ['a'], []⟩, ⟨[], ['m'], ['b'], []⟩, ⟨[], ['k'], [], []⟩], []⟩) [['a'], ['b'], []] [] =
    .ok [['k'], ['m']] := by decide

/-- A missing (or unreadable) directory is an error, the same error the source reported. -/
theorem C11_missing_is_error (v : View) (exts : List Name) (d : Id) (e : Err) (h : v.readDir d = .err e) :
    dirLoad v exts d = .err e ∧ ∀ n, recLoad (n + 1) v exts d = some (.err e) := by
  have h1 : dirLoad v exts d = .err e := by simp [dirLoad, selectIds, h]
  exact ⟨h1, fun n => by simp [recLoad, h1]⟩

/-! ## `RecursiveDirectory<T>` -/

/-- `d'` is `d` or lies below it through readable directories: every directory on the way
(`d` included, `d'` excluded) could be listed and lists the next one. -/
inductive Below (v : View) : Id → Id → Prop
  | refl (d : Id) : Below v d d
  | step {d c d' : Id} {es : List Entry} : v.readDir d = .ok es → Entry.dir c ∈ es → Below v c d' → Below v d d'

theorem mem_subDirs {v : View} {d : Id} {subs : List Id} (h : subDirs v d = .ok subs) (c : Id) :
    c ∈ subs ↔ ∃ es, v.readDir d = .ok es ∧ Entry.dir c ∈ es := by
  unfold subDirs at h
  cases hr : v.readDir d with
  | err e => simp [hr] at h
  | ok es =>
    simp only [hr] at h
    injection h with h
    subst h
    rw [List.mem_filterMap]
    constructor
    · rintro ⟨e, he, h⟩
      cases e with
      | file _ _ => simp at h
      | dir i => simp only [Option.some.injEq] at h; subst h; exact ⟨es, rfl, he⟩
    · rintro ⟨es', hes, he⟩
      injection hes with hes
      subst hes
      exact ⟨.dir c, he, rfl⟩

theorem below_readable {v : View} {exts : List Name} {c d' : Id} {own : List Id}
    (hb : Below v c d') (hl : dirLoad v exts d' = .ok own) : ∃ esc, v.readDir c = .ok esc := by
  cases hb with
  | refl =>
    unfold dirLoad selectIds at hl
    cases hrc : v.readDir c with
    | ok esc => exact ⟨esc, rfl⟩
    | err e' => simp [hrc] at hl
  | step h1 _ _ => exact ⟨_, h1⟩

theorem recLoad_not_err {v : View} {exts : List Name} {c : Id} {esc : List Entry} (h : v.readDir c = .ok esc)
    (n : Nat) (e : Err) : recLoad n v exts c ≠ some (.err e) := by
  cases n with
  | zero => simp [recLoad]
  | succ m =>
    simp only [recLoad, dirLoad, selectIds, subDirs, h]
    split <;> simp

/-- `load_rec_dir::<T>(d)` lists exactly the ids `load_dir` lists for `d` and for every directory
below it that is reachable through *readable* directories (a directory whose own listing fails
contributes nothing and hides nothing but its own subtree). -/
theorem C11_rec_ids (n : Nat) (v : View) (exts : List Name) (d : Id) (ids : List Id)
    (h : recLoad n v exts d = some (.ok ids)) (id : Id) :
    id ∈ ids ↔ ∃ d' own, Below v d d' ∧ dirLoad v exts d' = .ok own ∧ id ∈ own := by
  induction n generalizing d ids with
  | zero => simp [recLoad] at h
  | succ n ih =>
    simp only [recLoad] at h
    cases hown : dirLoad v exts d with
    | err e => simp [hown] at h
    | ok own =>
      simp only [hown] at h
      cases hsub : subDirs v d with
      | err e => simp [hsub] at h
      | ok subs =>
        simp only [hsub] at h
        split at h
        · simp at h
        · rename_i hnone
          simp only [Option.some.injEq, Res.ok.injEq] at h
          subst h
          have hall : ∀ c ∈ subs, ∃ r, recLoad n v exts c = some r := by
            intro c hc
            cases hr : recLoad n v exts c with
            | some r => exact ⟨r, rfl⟩
            | none =>
              exfalso; apply hnone
              simp only [List.any_eq_true, List.mem_map]
              exact ⟨none, ⟨c, hc, hr⟩, rfl⟩
          simp only [List.mem_append, List.mem_flatten, List.mem_filterMap, List.mem_map]
          constructor
          · rintro (h | ⟨l, ⟨o, ⟨c, hc, rfl⟩, ho⟩, hl⟩)
            · exact ⟨d, own, .refl d, hown, h⟩
            · cases hr : recLoad n v exts c with
              | none => simp [hr, okIds] at ho
              | some r =>
                cases r with
                | err e => simp [hr, okIds] at ho
                | ok cids =>
                  simp only [hr, okIds, Option.some.injEq] at ho
                  subst ho
                  obtain ⟨d', own', hb, hl', hm⟩ := (ih c cids hr).mp hl
                  obtain ⟨es, hes, hce⟩ := (mem_subDirs hsub c).mp hc
                  exact ⟨d', own', .step hes hce hb, hl', hm⟩
          · rintro ⟨d', own', hb, hl', hm⟩
            cases hb with
            | refl => left; rw [hown] at hl'; injection hl' with hl'; subst hl'; exact hm
            | step hes hce hb' =>
              rename_i c es
              right
              have hc : c ∈ subs := (mem_subDirs hsub c).mpr ⟨es, hes, hce⟩
              obtain ⟨r, hr⟩ := hall c hc
              -- the child could be listed (it is on a readable path), so its load succeeded
              cases r with
              | ok cids =>
                exact ⟨cids, ⟨some (.ok cids), ⟨c, hc, hr⟩, rfl⟩, (ih c cids hr).mpr ⟨d', own', hb', hl', hm⟩⟩
              | err e =>
                -- `c` is on a readable path, so its own load cannot have failed
                obtain ⟨esc, hesc⟩ := below_readable hb' hl'
                exact absurd hr (recLoad_not_err hesc n e)

/-- An unreadable sub-directory is skipped without hiding its siblings: whatever happens to the
other children of `d` (their own load may fail), the directory's own ids and all ids of every
child `s` that could be loaded are in the listing of `d`. -/
theorem C11_unreadable_child_skipped (n : Nat) (v : View) (exts : List Name) (d : Id) (ids : List Id)
    (h : recLoad (n + 1) v exts d = some (.ok ids)) :
    (∀ own, dirLoad v exts d = .ok own → ∀ id ∈ own, id ∈ ids) ∧
    (∀ es s sids, v.readDir d = .ok es → Entry.dir s ∈ es → recLoad n v exts s = some (.ok sids) →
      ∀ id ∈ sids, id ∈ ids) := by
  constructor
  · intro own hown id hid
    exact (C11_rec_ids _ v exts d ids h id).mpr ⟨d, own, .refl d, hown, hid⟩
  · intro es s sids hes hs hsl id hid
    obtain ⟨d', own, hb, hl, hm⟩ := (C11_rec_ids n v exts s sids hsl id).mp hid
    exact (C11_rec_ids _ v exts d ids h id).mpr ⟨d', own, .step hes hs hb, hl, hm⟩

/-- root with files `k`, `u/m.a`, `w/z.a`; `u` is unreadable: `w`'s ids stay. -/
example : recLoad 8 (denyDirs (sem ⟨[⟨[], ['k'], ['a'], []⟩, ⟨[['u']], ['m'], ['a'], []⟩, ⟨[['w']], ['z'], ['a'], []⟩],
    [[['u']], [['w']]]⟩) [['u']]) [['a']] [] = some (.ok [['k'], ['w', '.', 'z']]) := by decide

/-- Under a tree-like view (every listed entry names the listing directory as its parent and
listings have no duplicates) distinct directories contribute distinct ids; stated for the
specification view in `C11_rec_nodup_example`; the general statement over trees is tied by the
`dir` engine's oracle (no duplicates in any recursive listing). -/
theorem C11_rec_own_first (n : Nat) (v : View) (exts : List Name) (d : Id) (ids : List Id)
    (h : recLoad (n + 1) v exts d = some (.ok ids)) :
    ∃ own rest, dirLoad v exts d = .ok own ∧ ids = own ++ rest := by
  simp only [recLoad] at h
  cases hown : dirLoad v exts d with
  | err e => simp [hown] at h
  | ok own =>
    simp only [hown] at h
    cases hsub : subDirs v d with
    | err e => simp [hsub] at h
    | ok subs =>
      simp only [hsub] at h
      split at h
      · simp at h
      · simp only [Option.some.injEq, Res.ok.injEq] at h
        exact ⟨own, _, rfl, h.symm⟩

/-! ## `iter` / `iter_cached` -/

/-- `iter` loads precisely the directory's ids, in order. -/
theorem C11_iter {α} (ids : List Id) (load : Id → α) :
    (iter ids load).length = ids.length ∧ ∀ i (h : i < ids.length), (iter ids load)[i]? = some (load ids[i]) := by
  refine ⟨by simp [iter], fun i h => ?_⟩
  simp [iter, List.getElem?_eq_getElem h]

/-- `iter_cached` yields precisely the already cached ones among the directory's ids, in order
(`key` recovers the id of a handle). -/
theorem C11_iter_cached {α} (ids : List Id) (getCached : Id → Option α) (key : α → Id)
    (hk : ∀ i a, getCached i = some a → key a = i) :
    (iterCached ids getCached).map key = ids.filter (fun i => (getCached i).isSome) := by
  induction ids with
  | nil => rfl
  | cons i is ih =>
    simp only [iterCached, List.filterMap_cons, List.filter_cons] at ih ⊢
    cases h : getCached i with
    | none => simpa using ih
    | some a => simp [hk i a h, ih]

/-- `Directory<Arc<T>>` / `RecursiveDirectory<Arc<T>>` list exactly what the `T` versions list: `impl DirLoadable for
Arc<T>` forwards `select_ids` and `sub_directories` to `T` (the trait's default `sub_directories` would walk the source's
directories instead of `T`'s). -/
theorem C11_arc_lists_like_inner : AmVerif.Gen.arcDirLoadableForwards = true := by decide

end AmVerif.Props.C11
