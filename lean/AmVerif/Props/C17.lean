import AmVerif.Gen.Skel
import AmVerif.Lemmas.CellStep
import AmVerif.Lemmas.CellFail
import AmVerif.Lemmas.CellLive
/-!
# C17 — `OnceInitCell` initialises once, keeps its seed on failure, drops once

All statements are about `AmVerif.Model.Cell.run`, the interpreter the model driver executes, on the
step programs and arm tables regenerated from `src/utils/cell.rs` (`AmVerif.Gen.Cell`). They hold for
every seed kind (no destructor / destructor / panicking destructor), every assignment of call lists
to threads (any number of threads, any initialiser outcomes) and every schedule.
`once_cell::sync::OnceCell` is an assumed primitive (its behaviour is the meaning of the tokens
`onceEnter` / `closureOk` and of `abort`).
-/
namespace AmVerif.Props.C17
open AmVerif.Gen.Cell AmVerif.Model.Cell

/-! ## What the source says today (extracted), in the shape the proofs rely on -/

/-- `get_or_try_init_default`: the union is written (`replace`) only between `onceEnter` and
`closureOk`, after the initialiser was called with `?`; the seed escapes the closure and is
dropped after `})?;`. -/
theorem C17_skel_default : initDefault =
    [.slotNone, .onceEnter, .borrow, .callF, .mkState, .replace, .escape, .closureOk, .onceExit,
      .dropEscaped, .ret] := by decide

/-- `get_or_try_init_no_drop`: same, the seed is overwritten in place (never dropped). -/
theorem C17_skel_no_drop : initNoDrop =
    [.onceEnter, .borrow, .callF, .overwrite, .closureOk, .onceExit, .ret] := by decide

/-- dispatch on `needs_drop::<U>()`, the arm `Drop` and `get` pick from the once state, the
constructors, and `get` using the non-blocking `OnceCell::get`. -/
theorem C17_tables :
    dispatch true = .dflt ∧ dispatch false = .noDrop ∧
    dropArm true = .init ∧ dropArm false = .uninit ∧
    getArm true = some .init ∧ getArm false = none ∧ getBlocks = false ∧
    uncheckedArm = .init ∧ newCtor = (false, .uninit) ∧ withValueCtor = (true, .init) := by decide

/-- `get_or_init` has no code path of its own: it forwards to `get_or_try_init` with the initialiser
wrapped in `Ok` (error type `Infallible`). -/
theorem C17_get_or_init_forwards : getOrInitForwards = true := by decide

/-- Hence a `get_or_init` call whose initialiser returns or panics *is* the `get_or_try_init` call with
that outcome, and every theorem below covers it (in particular `C17_failure_keeps_seed` for a panic
passed through `get_or_init`). -/
theorem C17_infallible_is_init (k : OKind) (d : Nat) (hk : k ≠ .err) :
    Call.infallible ⟨k, d⟩ = some (.init ⟨k, d⟩) := by
  simp [Call.infallible, C17_get_or_init_forwards, hk]

/-! ## Reachable states -/

/-- The state after schedule `σ`, from `OnceInitCell::new(seed c)` shared by threads with call lists `calls`. -/
def reach (kind : Kind) (c : Nat) (calls : Nat → List Call) (σ : List Nat) : Sys :=
  run (init kind c calls) σ

theorem init_inv (kind : Kind) (c : Nat) (calls : Nat → List Call) : Inv (init kind c calls) := by
  refine ⟨rfl, Or.inl ⟨rfl, ⟨c, rfl⟩, rfl, ⟨rfl, rfl⟩, fun u a ha => ?_⟩, fun u r hr => ?_⟩
  · simp [init] at ha
  · simp [init] at hr

/-- **One owner.** In every reachable state the dead arm of the union was never touched (`ub = false`)
and the state is in one of three phases (`Phase`): once empty — the union holds the seed, no
destructor ran, no thread holds a register; a thread inside the closure — its program point says
where seed and value are (union / `value` / `uninit` / `uninit_value`), nobody else holds anything;
once initialised — the union holds the value for good, and the seed is either in the
`uninit_value` of exactly one thread past the closure (about to be dropped) or accounted for once
in the ledger (dropped on the default path, forgotten on the no-drop path). -/
theorem C17_one_owner (kind : Kind) (c : Nat) (calls : Nat → List Call) (σ : List Nat) :
    Inv (reach kind c calls σ) :=
  run_inv _ σ (init_inv kind c calls)

/-- The seed's destructor runs at most once, and a forgotten seed is never also dropped. -/
theorem C17_seed_at_most_once (kind : Kind) (c : Nat) (calls : Nat → List Call) (σ : List Nat) :
    (reach kind c calls σ).sh.seedDrops + (reach kind c calls σ).sh.seedLeaks ≤ 1 := by
  have h := C17_one_owner kind c calls σ
  generalize reach kind c calls σ = s at h
  obtain ⟨sh, ths⟩ := s
  rcases h.phaseC with ⟨_, _, _, ⟨l1, l2⟩, _⟩ | ⟨r, a, _, _, hok, _⟩ | ⟨_, _, _, _, hacct⟩
  · show sh.seedDrops + sh.seedLeaks ≤ 1; omega
  · show sh.seedDrops + sh.seedLeaks ≤ 1
    rcases hok with ⟨_, _, _, _, _, l1, l2⟩ | ⟨_, _, _, _, _, _, _, l1, l2⟩ | ⟨_, _, _, _, _, _, _, l1, l2⟩ |
      ⟨_, _, _, _, _, _, _, l1, l2⟩ | ⟨_, _, _, _, _, l1, l2⟩ | ⟨_, _, _, _, _, _, _, l1, l2⟩ |
      ⟨_, _, _, _, _, l1, l2⟩ <;> omega
  · show sh.seedDrops + sh.seedLeaks ≤ 1
    rcases hacct with ⟨_, hl⟩ | ⟨_, _, _, _, _, l1, l2⟩ <;> omega

/-- **One success.** At most one initialiser ever returns `Ok`, and every reference any caller
(of `get`, `get_or_init`, `get_or_try_init`) ever got is to the value stored in the cell —
so all callers got the same one. -/
theorem C17_one_success (kind : Kind) (c : Nat) (calls : Nat → List Call) (σ : List Nat) :
    (reach kind c calls σ).sh.inits ≤ 1 ∧
    (∀ u v, Res.ref v ∈ ((reach kind c calls σ).ths u).results →
      (reach kind c calls σ).sh.once = .done ∧ (reach kind c calls σ).sh.data = .value v) ∧
    (∀ u u' v v', Res.ref v ∈ ((reach kind c calls σ).ths u).results →
      Res.ref v' ∈ ((reach kind c calls σ).ths u').results → v = v') := by
  have h := C17_one_owner kind c calls σ
  generalize reach kind c calls σ = s at h
  obtain ⟨sh, ths⟩ := s
  have hrefs : ∀ u v, Res.ref v ∈ (ths u).results → sh.once = .done ∧ sh.data = .value v :=
    fun u v hm => h.resC u _ hm
  refine ⟨?_, hrefs, fun u u' v v' hm hm' => ?_⟩
  · show sh.inits ≤ 1
    rcases h.phaseC with ⟨_, _, hi, _⟩ | ⟨r, a, _, _, hok, _⟩ | ⟨_, _, hi, _⟩
    · omega
    · rcases hok with ⟨_, _, _, _, hi, _⟩ | ⟨_, _, _, _, _, _, hi, _⟩ | ⟨_, _, _, _, _, _, hi, _⟩ |
        ⟨_, _, _, _, _, _, hi, _⟩ | ⟨_, _, _, _, hi, _⟩ | ⟨_, _, _, _, _, _, hi, _⟩ |
        ⟨_, _, _, _, hi, _⟩ <;> omega
    · omega
  · have a := (hrefs u v hm).2
    have b := (hrefs u' v' hm').2
    rw [a] at b; cases b; rfl

/-- No caller ever observes undefined behaviour (a read or destructor on the dead arm). -/
theorem C17_no_ub (kind : Kind) (c : Nat) (calls : Nat → List Call) (σ : List Nat) :
    (reach kind c calls σ).sh.ub = false ∧ ∀ u, Res.ub ∉ ((reach kind c calls σ).ths u).results := by
  have h := C17_one_owner kind c calls σ
  exact ⟨h.nub, fun u hm => h.res u _ hm⟩

/-- **`get` never blocks**: in *any* state, `get` is one enabled step; it answers `None` without
touching anything unless the once is initialised. -/
theorem C17_get_never_blocks (sh : Sh) (t : Nat) (th : Th) (rest : List Call)
    (hact : th.act = none) (hcalls : th.calls = .get :: rest) :
    ∃ sh' r, stepTh sh t th = some (sh', { th with calls := rest, results := r :: th.results }) ∧
      (sh.once ≠ .done → r = .none ∧ sh' = sh) := by
  unfold stepTh getStep
  rw [hact, hcalls]
  by_cases hd : sh.once = .done
  · cases hr : sh.data.read .init with
    | none => exact ⟨{ sh with ub := true }, .ub, by simp [getBlocks, getArm, hd, hr], fun h => absurd hd h⟩
    | some v => exact ⟨sh, .ref v, by simp [getBlocks, getArm, hd, hr], fun h => absurd hd h⟩
  · exact ⟨sh, .none, by simp [getBlocks, getArm, hd], fun _ => ⟨rfl, rfl⟩⟩

/-- **Drop once.** When the cell is dropped (no call in flight — `Drop` takes `&mut self`), the
destructor runs on the live arm; afterwards the seed has been dropped or forgotten exactly once
over the cell's whole life, a value was dropped iff an initialiser succeeded (exactly one then),
and the drop can only panic for a never-initialised cell whose seed's destructor panics. -/
theorem C17_drop_once (kind : Kind) (c : Nat) (calls : Nat → List Call) (σ : List Nat)
    (hq : ∀ u, ((reach kind c calls σ).ths u).act = none) :
    let f := dropCell (reach kind c calls σ).sh
    f.ub = false ∧ f.seedDrops + f.seedLeaks = 1 ∧ f.valDrops = (reach kind c calls σ).sh.inits ∧
    (f.panicked = true → (reach kind c calls σ).sh.kind = .bomb ∧ (reach kind c calls σ).sh.once = .empty) := by
  have h := C17_one_owner kind c calls σ
  generalize reach kind c calls σ = s at h hq
  obtain ⟨sh, ths⟩ := s
  have hub := h.nubC
  rcases h.phaseC with ⟨h1, ⟨c', h2⟩, h3, ⟨l1, l2⟩, _⟩ | ⟨r, a, _, h2, _⟩ | ⟨h1, ⟨v, h2⟩, h3, _, hacct⟩
  · simp only [dropCell, h1, h2, dropArm]
    cases hk : sh.kind <;> simp [Kind.needsDrop, hub, l1, l2, h3]
  · have := hq r; simp only at this; rw [this] at h2; cases h2
  · simp only [dropCell, h1, h2, dropArm, decide_true]
    rcases hacct with ⟨_, hl⟩ | ⟨hh, a, ha, _⟩
    · simp [hub, hl, h3]
    · have := hq hh; simp only at this; rw [this] at ha; cases ha

/-- **Panicking seed destructor.** If a caller saw the seed's destructor panic, the cell is
initialised all the same: the union holds the value, `get` returns it, and the seed's destructor
ran exactly once. -/
theorem C17_seed_drop_panic (kind : Kind) (c : Nat) (calls : Nat → List Call) (σ : List Nat) (u : Nat)
    (hp : Res.panicDrop ∈ ((reach kind c calls σ).ths u).results) :
    let sh := (reach kind c calls σ).sh
    sh.once = .done ∧ sh.kind = .bomb ∧ sh.seedDrops = 1 ∧
      ∃ v, sh.data = .value v ∧ getStep sh = some (sh, .ref v) := by
  have h := C17_one_owner kind c calls σ
  have hle := C17_seed_at_most_once kind c calls σ
  generalize reach kind c calls σ = s at h hp hle
  obtain ⟨sh, ths⟩ := s
  obtain ⟨h1, hk, hge⟩ := h.resC u _ hp
  rcases h.phaseC with ⟨h1', _⟩ | ⟨r, a, h1', _⟩ | ⟨_, ⟨v, h2⟩, _⟩
  · rw [h1'] at h1; cases h1
  · rw [h1'] at h1; cases h1
  · refine ⟨h1, hk, ?_, v, h2, ?_⟩
    · show sh.seedDrops = 1
      have : sh.seedDrops + sh.seedLeaks ≤ 1 := hle
      omega
    · simp [getStep, getBlocks, getArm, h1, h2, Data.read]


/-- **Failure keeps the seed.** Whenever a step makes a call end with the initialiser's error or
panic, the state right after it has the once empty, the union holding the seed (as the
initialiser left it), no destructor run, nothing forgotten, no value made — and that thread's call
is over (the error / panic went to the caller). -/
theorem C17_failure_keeps_seed (kind : Kind) (c : Nat) (calls : Nat → List Call) (σ : List Nat)
    (t : Nat) (r : Res) (hf : r = .panicF ∨ ∃ e, r = .err e)
    (hr : (((reach kind c calls σ).step t).ths t).results = r :: ((reach kind c calls σ).ths t).results) :
    let s' := (reach kind c calls σ).step t
    s'.sh.once = .empty ∧ (∃ c', s'.sh.data = .seed c') ∧ s'.sh.inits = 0 ∧
      s'.sh.seedDrops = 0 ∧ s'.sh.seedLeaks = 0 ∧ (s'.ths t).act = none := by
  have h := C17_one_owner kind c calls σ
  generalize reach kind c calls σ = s at h hr
  obtain ⟨sh, ths⟩ := s
  unfold Sys.step at hr ⊢
  cases hst : stepTh sh t (ths t) with
  | none => rw [hst] at hr; exact absurd hr.symm (cons_ne_self _ _)
  | some p =>
    obtain ⟨sh', th'⟩ := p
    rw [hst] at hr
    simp only [upd_same] at hr ⊢
    obtain ⟨a, c', hact, htok, hdata, rfl, hact'⟩ := stepTh_fail hst hr hf
    obtain ⟨hrun, hin, hl1, hl2⟩ := callF_runner h hact htok
    have hab : abort { sh with data := .seed (c' + a.out.delta) } t =
        { sh with data := .seed (c' + a.out.delta), once := .empty } := by simp [abort, hrun]
    rw [hab]
    exact ⟨rfl, ⟨_, rfl⟩, hin, hl1, hl2, hact'⟩

/-- **…so that a later attempt can succeed.** From any state with the once empty and the seed in
the union (by `C17_failure_keeps_seed` that is the state after every failure; by `C17_one_owner`
every reachable state with an empty once), a thread whose next call is a `get_or_try_init` with a
succeeding initialiser initialises the cell when scheduled alone, wherever the other threads
stand: there is a continuing schedule after which the cell holds the value made from the seed as
the failures left it (`c + d`), and the caller has the reference (or, for a seed with a panicking
destructor, that panic — the cell being initialised all the same). -/
theorem C17_retry_succeeds (s : Sys) (t c d : Nat) (rest : List Call)
    (h1 : s.sh.once = .empty) (h2 : s.sh.data = .seed c) (ha : (s.ths t).act = none)
    (hc : (s.ths t).calls = .init ⟨.ok, d⟩ :: rest) :
    ∃ σ', (run s σ').sh.once = .done ∧ (run s σ').sh.data = .value (c + d) ∧
      ((run s σ').ths t).results =
        (if s.sh.kind = .bomb then Res.panicDrop else .ref (c + d)) :: (s.ths t).results := by
  obtain ⟨sh, ths⟩ := s
  obtain ⟨n, hn⟩ := retry_succeeds sh ths t c d rest h1 h2 ha hc
  exact ⟨List.replicate n t, hn⟩

/-- **No deadlock.** In every reachable state in which some thread still has work (a call in
flight or a call to make), some thread can take a step: callers blocked on the once wait for a
closure that can always move on. (`get` itself is never blocked: `C17_get_never_blocks`.) -/
theorem C17_no_deadlock (kind : Kind) (c : Nat) (calls : Nat → List Call) (σ : List Nat) (u : Nat)
    (hw : ((reach kind c calls σ).ths u).act ≠ none ∨ ((reach kind c calls σ).ths u).calls ≠ []) :
    ∃ t, stepTh (reach kind c calls σ).sh t ((reach kind c calls σ).ths t) ≠ none := by
  have h := C17_one_owner kind c calls σ
  generalize reach kind c calls σ = s at h hw
  obtain ⟨sh, ths⟩ := s
  exact no_deadlock h u hw

/-! ## Non-vacuity: concrete schedules -/

/-- thread 0: failing init (+2), then get; thread 1: succeeding init (+1); thread 2: panicking init (+4), then init -/
def demoCalls : Nat → List Call
  | 0 => [.init ⟨.err, 2⟩, .get]
  | 1 => [.init ⟨.ok, 1⟩]
  | 2 => [.init ⟨.panic, 4⟩, .init ⟨.ok, 100⟩]
  | _ => []

/-- thread 0 enters the closure first and fails, 2 panics, 1 succeeds while 2 is blocked, then all finish -/
def demoSched : List Nat :=
  [0, 1, 0, 0, 1, 1, 0, 0, 2, 2, 2, 2, 2, 1, 1, 1, 2, 1, 1, 2, 2, 1, 1, 1, 1, 1, 1, 0, 2, 2, 2]

example : (reach .tracked 5 demoCalls demoSched).sh =
    { kind := .tracked, once := .done, data := .value 12, inits := 1, seedDrops := 1 } := by decide
example : ((reach .tracked 5 demoCalls demoSched).ths 0).results = [.ref 12, .err 7] := by decide
example : ((reach .tracked 5 demoCalls demoSched).ths 1).results = [.ref 12] := by decide
example : ((reach .tracked 5 demoCalls demoSched).ths 2).results = [.ref 12, .panicF] := by decide
example : ∀ u, u < 3 → ((reach .tracked 5 demoCalls demoSched).ths u).act = none := by decide
example : dropCell (reach .tracked 5 demoCalls demoSched).sh = ⟨1, 0, 1, false, false⟩ := by decide
/-- a blocked caller: thread 1 at `onceEnter` while thread 0 is inside the closure -/
example : stepTh (reach .tracked 5 demoCalls [0, 0, 0, 1, 1, 1]).sh 1 ((reach .tracked 5 demoCalls [0, 0, 0, 1, 1, 1]).ths 1) = none := by decide
/-- panicking destructor: the caller sees the panic, the cell is initialised -/
example : ((reach .bomb 5 demoCalls (List.replicate 12 1)).ths 1).results = [.panicDrop] ∧
    (reach .bomb 5 demoCalls (List.replicate 12 1)).sh.once = .done := by decide
/-- no-drop path: the seed is forgotten, never dropped -/
example : (reach .plain 5 demoCalls (List.replicate 8 1)).sh =
    { kind := .plain, once := .done, data := .value 6, inits := 1, seedLeaks := 1 } := by decide

/-- Both maps (sharded `AssetCache`, single-threaded `LocalAssetCache`) insert with `entry(key).or_insert(entry)` inside one
lock / borrow scope: the first entry for a key survives, handles that were given out stay valid, a late entry is dropped. -/
theorem C17_insert_keeps_first :
    AmVerif.Gen.skel_cache_AssetMap_for_AssetMap_insert = [.call .s_get_shard, .acq .s_write 0, .call .s_entry, .call .s_or_insert, .rel 0] ∧
    AmVerif.Gen.skel_local_cache_AssetMap_for_AssetMap_insert = [.acq .s_borrow_mut 0, .call .s_entry, .call .s_or_insert, .rel 0] := ⟨rfl, rfl⟩

/-- A stored cell is replaced by hot-reloading only inside the entry's write-lock scope (swap, id, flag; old value dropped
by the caller afterwards): no reader can be inside `get_or_init` of a cell that is being swapped. -/
theorem C17_write_under_lock : AmVerif.Gen.skel_entry_UntypedEntry_write =
    [.branch [[.acq .s_write 0, .call .s_get, .call .s_get_mut, .call .s_swap_any, .call .s_increment, .call .s_store_Release, .rel 0, .ret], []],
     .call .s_wrong_handle_type] := rfl

end AmVerif.Props.C17
