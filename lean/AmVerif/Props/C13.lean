import AmVerif.Model.World
import AmVerif.Gen.Skel
/-!
# C13 — every stored value is dropped exactly once; type erasure never lies (work in progress)
-/
namespace AmVerif.Props.C13
open AmVerif.Gen AmVerif.Model

/-! ## Type erasure -/

/-- **An untyped handle can be viewed only as the type it was created with**: asking for any other
type yields `None` (or the `wrong handle type` panic), never a reinterpretation. -/
theorem C13_downcast (stored req : Nat) : (viewAs stored req).isSome ↔ stored = req := by
  have h : (isComparesTypeId && entryStoresOwnTypeId && downcastRefGuarded && downcastBoxGuarded && publicViewsUseGuardedCasts) = true := by decide
  unfold viewAs
  rw [h]
  by_cases e : stored = req <;> simp [e]

/-- There are exactly two places where an untyped entry is reinterpreted as a typed one, both
guarded (`downcast_ref`, `downcast`), and `write` asserts equal types before swapping bytes. -/
theorem C13_all_casts_guarded :
    castSitesToTyped = 2 ∧ downcastRefGuarded = true ∧ downcastBoxGuarded = true ∧ writeAssertsSameType = true := by decide

/-! ## The replaced value leaves the entry under the write lock -/

/-- `UntypedEntry::write`: the bytes of the new and the old value are swapped inside the write-lock
scope; the entry handed in (which now holds the old value) is dropped by the caller's frame after
the lock is released — the old value is dropped once, and not while a read guard can reach it. -/
theorem skel_write : skel_entry_UntypedEntry_write =
    [.branch [[.acq .s_write 0, .call .s_get, .call .s_get_mut, .call .s_swap_any, .call .s_increment, .call .s_store_Release, .rel 0, .ret], []],
     .call .s_wrong_handle_type] := rfl

example : viewAs 3 3 = some 3 ∧ viewAs 3 4 = none := by decide

end AmVerif.Props.C13
