import AmVerif.Gen.TabLock
import AmVerif.Model.World
import AmVerif.Gen.Skel
import AmVerif.Lemmas.Ledger
/-!
# C13 — every stored value is dropped exactly once; type erasure never lies
-/
namespace AmVerif.Props.C13
open AmVerif.Gen AmVerif.Model

/-! ## Type erasure -/

/-- **An untyped handle can be viewed only as the type it was created with**: asking for any other
type yields `None` (or the `wrong handle type` panic), never a reinterpretation. -/
theorem C13_downcast (stored req : Nat) : (viewAs stored req).isSome ↔ stored = req := by
  have h : (isComparesTypeId && entryStoresOwnTypeId && downcastRefGuarded && downcastBoxGuarded && publicViewsUseGuardedCasts) = true := by decide
  unfold viewAs
  rw [h]
  by_cases e : stored = req <;> simp [e]

/-- There are exactly two places where an untyped entry is reinterpreted as a typed one, both
guarded (`downcast_ref`, `downcast`), and `write` asserts equal types before swapping bytes. -/
theorem C13_all_casts_guarded :
    castSitesToTyped = 2 ∧ downcastRefGuarded = true ∧ downcastBoxGuarded = true ∧ writeAssertsSameType = true := by decide

/-! ## A value handed to `insert` is stored iff the key was vacant, otherwise dropped with its entry -/

/-- Both maps (sharded `AssetCache`, single-threaded `LocalAssetCache`) insert with `entry(key).or_insert(entry)` inside
one lock / borrow scope: the first entry for a key survives and the late one is dropped — the `lost` branch of the
ledger's `St.own`. A replacing `insert` would free an entry whose handles are out and keep the late value instead
(re-entrant loads reach this without any thread race). -/
theorem skel_insert_keeps_first :
    skel_cache_AssetMap_for_AssetMap_insert = [.call .s_get_shard, .acq .s_write 0, .call .s_entry, .call .s_or_insert, .rel 0] ∧
    skel_local_cache_AssetMap_for_AssetMap_insert = [.acq .s_borrow_mut 0, .call .s_entry, .call .s_or_insert, .rel 0] := ⟨rfl, rfl⟩

/-! ## The replaced value leaves the entry under the write lock -/

/-- `UntypedEntry::write`: the bytes of the new and the old value are swapped inside the write-lock
scope; the entry handed in (which now holds the old value) is dropped by the caller's frame after
the lock is released — the old value is dropped once, and not while a read guard can reach it. -/
theorem skel_write : skel_entry_UntypedEntry_write =
    [.branch [[.acq .s_write 0, .call .s_get, .call .s_get_mut, .call .s_swap_any, .call .s_increment, .call .s_store_Release, .rel 0, .ret], []],
     .call .s_wrong_handle_type] := rfl

example : viewAs 3 3 = some 3 ∧ viewAs 3 4 = none := by decide

/-! ## The ownership ledger

The model's ghost ledger (`made` / `held` / `gone`, `Model/World.lean`) is updated at exactly the points
where the code creates, stores, drops or hands out a value. `LedgerOK` (`Lemmas/Ledger.lean`) says: one
entry per key, distinct addresses below the counter, the holders are exactly the live entries, no value
is in two places or gone twice, only created values appear, and every created value is held or gone.
It holds of the empty cache and is preserved by everything the model can do. -/

theorem C13_ledger_init : LedgerOK ({} : St) := LedgerOK.init

/-- every loader program: nested loads, `load_owned`, `get_or_insert` (also into the very slot that is
being loaded), failures, panics, fuel exhaustion, helper threads, `no_record` -/
theorem C13_ledger_eval (env : Env) (f : Nat) (s : St) (p : Prog) : LedgerOK s → LedgerOK (eval env f s p).1 :=
  eval_ledger env f s p

theorem C13_ledger_step (env : Env) (f : Nat) (s : St) (op : Op) : LedgerOK s → LedgerOK (step env f s op).1 :=
  step_ledger env f s op

theorem C13_ledger_reload (env : Env) (f : Nat) (s : St) (key : Key) : LedgerOK s → LedgerOK (reloadUntyped env f s key).1 :=
  reloadUntyped_ledger env f s key

/-- API operations, notifications, `hot_reload`, `enhance_hot_reloading`, the environment changing
arbitrarily between steps -/
theorem C13_ledger_history (fuel : Nat) (h : List (Env × HOp)) (x : St × RSt) : LedgerOK x.1 → LedgerOK (runH fuel h x).1 :=
  runH_ledger fuel h x

/-- dropping the cache drops every stored value -/
def dropCache (s : St) : St := St.release { s with map := [] } (s.map.map (·.2.addr))

theorem C13_ledger_dropCache (s : St) (h : LedgerOK s) : LedgerOK (dropCache s) := h.dropAll

/-- **A created value is in exactly one place**: held by a live entry, or gone. -/
theorem C13_one_place (s : St) (h : LedgerOK s) (v : Nat) (hv : v < s.made.length) :
    (v ∈ s.held.map (·.2) ∧ v ∉ s.gone) ∨ (v ∉ s.held.map (·.2) ∧ v ∈ s.gone) := by
  have hlen : (s.held.map (·.2) ++ s.gone).length = s.made.length := by
    rw [List.length_append, List.length_map]; exact h.all
  have hmem := mem_of_nodup_full s.made.length _ h.once h.known hlen v hv
  have hdis := (List.nodup_append.1 h.once).2.2
  rcases List.mem_append.1 hmem with hm | hm
  · exact Or.inl ⟨hm, fun hg => hdis v hm v hg rfl⟩
  · exact Or.inr ⟨fun hh => hdis v hh v hm rfl, hm⟩

/-- **Exactly once.** Over every history from the empty cache (API operations, notified edits,
`hot_reload`, `enhance_hot_reloading`, arbitrary environments), after the cache is dropped nothing
is held, and every value ever created has gone exactly once. -/
theorem C13_exactly_once (fuel : Nat) (h : List (Env × HOp)) :
    let s := dropCache (runH fuel h ({}, {})).1
    s.held = [] ∧ s.gone.Nodup ∧ s.gone.length = s.made.length ∧ ∀ v, v < s.made.length ↔ v ∈ s.gone := by
  intro s
  have hok : LedgerOK s := C13_ledger_dropCache _ (C13_ledger_history fuel h ({}, {}) C13_ledger_init)
  have hheld : s.held = [] := by
    have := hok.holders
    have hm : s.map = [] := rfl
    rw [hm] at this
    exact List.map_eq_nil_iff.1 this
  have honce := hok.once
  have hknown := hok.known
  have hall := hok.all
  rw [hheld] at honce hknown hall
  simp only [List.map_nil, List.nil_append] at honce hknown
  simp only [List.length_nil, Nat.zero_add] at hall
  refine ⟨hheld, honce, hall, fun v => ⟨fun hv => ?_, hknown v⟩⟩
  exact mem_of_nodup_full s.made.length s.gone honce hknown hall v hv

/-! ### Non-vacuity: a concrete history -/

/-- a cache with reloader; every type is hot-reloaded and loads to `n` -/
def exEnv (n : Int) : Env :=
  { read := fun _ _ _ => .ok [], readDir := fun _ _ => .ok [],
    types := fun _ => { hot := true, prog := fun _ => .ret (.int n) }, hasReloader := true }

def exA : Key := ⟨0, "a"⟩
def exB : Key := ⟨0, "b"⟩

/-- two loads, a `get_or_insert` on a present key, a `load_owned`, a notified edit reloaded by
`hot_reload` (one `write`), a `remove` -/
def exHist : List (Env × HOp) :=
  [(exEnv 1, .api (.load exA)), (exEnv 1, .api (.load exB)), (exEnv 1, .api (.getOrInsert exA (.int 9))),
   (exEnv 1, .api (.loadOwned exA)), (exEnv 2, .notify [.asset exB]), (exEnv 2, .hotReload), (exEnv 2, .api (.remove exA))]

/-- the ledger of that history: five values created, one still held (by the reloaded entry: the
value written by the reload), four gone (the one passed to `get_or_insert`, the one `load_owned`
returned, the one the reload replaced, the one `remove` dropped) -/
example : (runH 5 exHist ({}, {})).1.made.length = 5 ∧ (runH 5 exHist ({}, {})).1.held = [(1, 4)] ∧
    (runH 5 exHist ({}, {})).1.gone = [2, 3, 1, 0] := by decide

example : (dropCache (runH 5 exHist ({}, {})).1).held = [] ∧ (dropCache (runH 5 exHist ({}, {})).1).gone = [2, 3, 1, 0, 4] ∧
    (dropCache (runH 5 exHist ({}, {})).1).made.length = 5 := by decide

example : (dropCache (runH 5 exHist ({}, {})).1).gone.Nodup ∧
    ∀ v, v < (dropCache (runH 5 exHist ({}, {})).1).made.length ↔ v ∈ (dropCache (runH 5 exHist ({}, {})).1).gone :=
  ⟨(C13_exactly_once 5 exHist).2.1, (C13_exactly_once 5 exHist).2.2.2⟩

/-- before the drop: value 4 is held and not gone, value 0 is gone and not held -/
example : (4 ∈ (runH 5 exHist ({}, {})).1.held.map (·.2) ∧ 4 ∉ (runH 5 exHist ({}, {})).1.gone) ∧
    (0 ∉ (runH 5 exHist ({}, {})).1.held.map (·.2) ∧ 0 ∈ (runH 5 exHist ({}, {})).1.gone) := by decide

example : (4 ∈ (runH 5 exHist ({}, {})).1.held.map (·.2) ∧ 4 ∉ (runH 5 exHist ({}, {})).1.gone) ∨
    (4 ∉ (runH 5 exHist ({}, {})).1.held.map (·.2) ∧ 4 ∈ (runH 5 exHist ({}, {})).1.gone) :=
  C13_one_place _ (C13_ledger_history 5 exHist ({}, {}) C13_ledger_init) 4 (by decide)

/-- a loader that loads its own key once (the second checkpoint lets it return): the inner load
stores its value, the outer one loses the insertion and its value is dropped with its entry -/
def exEnvRec : Env :=
  { read := fun _ _ _ => .ok [], readDir := fun _ _ => .ok [],
    types := fun _ => { hot := true, prog := fun id => .tick fun fl => if fl = some true then .ret (.int 7) else .load ⟨0, id⟩ Prog.ret' },
    hasReloader := true, loaderFault := fun n => if n = 1 then some true else none }

example : (runH 6 [(exEnvRec, .api (.load exA))] ({}, {})).1.made.length = 2 ∧
    (runH 6 [(exEnvRec, .api (.load exA))] ({}, {})).1.held = [(0, 0)] ∧
    (runH 6 [(exEnvRec, .api (.load exA))] ({}, {})).1.gone = [1] ∧
    (runH 6 [(exEnvRec, .api (.load exA))] ({}, {})).1.dropped = [1] := by decide

/-- **Re-entrant fill of the slot being loaded** (an insertion race without threads): the loader of
type 0 stores a provisional value in ITS OWN slot with `get_or_insert`, then loads its child (type 1,
same id), whose loader loads the parent back — a hit on the provisional entry. When the parent's load
returns, the slot is occupied: keep-first drops the late value with its entry. -/
def exEnvReent : Env :=
  { read := fun _ _ _ => .ok [], readDir := fun _ _ => .ok [],
    types := fun ty =>
      { hot := true,
        prog := fun id =>
          if ty = 0 then
            .getOrInsert ⟨0, id⟩ (.int 100) fun v => .load ⟨1, id⟩ fun r =>
              match r with
              | .ok w => .ret (.int (valInt v + valInt w))
              | .error e => .fail e
          else .load ⟨0, id⟩ Prog.ret' },
    hasReloader := true }

/-- three values created: the provisional one (held by the parent's entry at address 0, which every
handle refers to), the child's (held at address 1), and the late result 200 of the parent's loader —
dropped at once with its entry (address 2), never stored -/
example : (runH 9 [(exEnvReent, .api (.load exA))] ({}, {})).1.made.length = 3 ∧
    (runH 9 [(exEnvReent, .api (.load exA))] ({}, {})).1.held = [(0, 0), (1, 1)] ∧
    (runH 9 [(exEnvReent, .api (.load exA))] ({}, {})).1.gone = [2] ∧
    (runH 9 [(exEnvReent, .api (.load exA))] ({}, {})).1.dropped = [2] ∧
    (runH 9 [(exEnvReent, .api (.load exA))] ({}, {})).1.lookup exA = some ⟨.int 100, false, 0, false, 0⟩ ∧
    (step exEnvReent 9 {} (.load exA)).2 = .handle 0 (.int 100) := by decide

example : LedgerOK (runH 9 [(exEnvReent, .api (.load exA))] ({}, {})).1 :=
  C13_ledger_history 9 _ ({}, {}) C13_ledger_init

/-- `hot_reload` lends the reloader thread raw pointers into the cache and relies on `wait_for_answer` not returning before
the answer: the crate's `Condvar::wait_while` waits without bound and re-checks its condition (both lock implementations). -/
theorem C13_wait_while_rechecks : AmVerif.Gen.waitWhileRechecksStd = true ∧ AmVerif.Gen.waitWhileRechecksParkingLot = true := by decide

end AmVerif.Props.C13
