import AmVerif.Lemmas.Map
import AmVerif.Gen.Skel
/-!
# C01 — one stable handle per (id, type), whatever the thread interleaving

**From interleavings to sequences.** Within a phase in which the cache is only shared-borrowed, the
threads issue `get` / `insert` / `contains_key` on the map (that `load`, `get_cached`,
`get_or_insert`, `contains` reduce to exactly these, in this order, is the content of the skeleton
theorems below). Each of the three is ONE atomic step: its whole body runs inside one lock scope of
the key's shard (`skel_get`, `skel_insert`, `skel_contains`: acquire, the map call(s), release —
in particular `insert` is `entry(key).or_insert(entry)` under a single write lock, not a look-up
followed by an insert). Hence every schedule of every number of threads running arbitrary
programs induces a *sequence* of such steps on the shared map, and a statement about all
sequences of `get`/`insert`/`contains` operations is a statement about all interleavings. The
sharded map refines the abstract map for every hasher and shard count (`SMap.refines`), so the
theorems are stated on the abstract map `FMap`.
-/
namespace AmVerif.Props.C01
open AmVerif.Gen AmVerif.Model

/-! ## The effect skeletons the argument rests on (regenerated from the source) -/

theorem skel_get : skel_cache_AssetMap_for_AssetMap_get =
    [.call .s_get_shard, .acq .s_read 0, .call .s_get, .try_, .rel 0] := rfl
theorem skel_insert : skel_cache_AssetMap_for_AssetMap_insert =
    [.call .s_get_shard, .acq .s_write 0, .call .s_entry, .call .s_or_insert, .rel 0] := rfl
theorem skel_contains : skel_cache_AssetMap_for_AssetMap_contains_key =
    [.call .s_get_shard, .acq .s_read 0, .call .s_contains_key, .rel 0] := rfl
theorem skel_local_get : skel_local_cache_AssetMap_for_AssetMap_get =
    [.acq .s_borrow 0, .call .s_get, .try_, .rel 0] := rfl
theorem skel_local_insert : skel_local_cache_AssetMap_for_AssetMap_insert =
    [.acq .s_borrow_mut 0, .call .s_entry, .call .s_or_insert, .rel 0] := rfl
theorem skel_local_contains : skel_local_cache_AssetMap_for_AssetMap_contains_key =
    [.acq .s_borrow 0, .call .s_contains_key, .rel 0] := rfl
/-- `load` = look-up; on a miss: load (no map access of its own), `?`, insert. -/
theorem skel_load_entry : skel_anycache_Cache_for_T_load_entry =
    [.call .s_get_cached_entry_inner, .branch [[], [.call .s_add_asset]]] := rfl
theorem skel_add_asset : skel_anycache_RawCache_add_asset =
    [.call .s_load_and_record, .try_, .call .s_insert] := rfl
theorem skel_get_cached : skel_anycache_Cache_for_T_get_cached_entry_inner =
    [.branch [[.branch [[.call .s_get, .branch [[], []], .call .s_add_record, .ret], []]], []], .call .s_get] := rfl
/-- `get_or_insert` = look-up; on a miss: build the entry, insert. -/
theorem skel_get_or_insert : skel_anycache_CacheExt__get_or_insert =
    [.call .s__get_cached_entry, .branch [[], [.call .s_add_any]], .call .s_downcast_ref_ok] := rfl
theorem skel_add_any : skel_anycache_CacheExt_add_any =
    [.call .s_insert] := rfl

/-! ## Sequences of atomic map steps without removal (one shared-borrow phase) -/

/-- The operations available through `&self`. -/
def Shared : MOp → Prop
  | .get _ | .insert _ _ | .contains _ => True
  | .remove _ | .clear => False

/-- Run a sequence, returning the final map. -/
def runMap (f : FMap) : List MOp → FMap
  | [] => f
  | op :: ops => runMap (f.step op).1 ops

theorem step_preserves (f : FMap) (op : MOp) (hs : Shared op) (k : Key) (c : Cell) (h : f k = some c) :
    (f.step op).1 k = some c := by
  cases op with
  | get k' => exact h
  | contains k' => exact h
  | remove k' => exact absurd hs id
  | clear => exact absurd hs id
  | insert k' c' =>
    simp only [FMap.step]
    cases hk : f k' with
    | some x => exact h
    | none =>
      simp only []
      by_cases e : k = k'
      · subst e; rw [h] at hk; cases hk
      · simp [e, h]

/-- **Presence never flips back, and the entry is the very same one**: once a key holds cell `c`
it holds `c` (same address, same value) after any further shared operations by any threads —
however many other entries are inserted meanwhile. -/
theorem C01_presence_monotone (f : FMap) (ops : List MOp) (hs : ∀ op ∈ ops, Shared op)
    (k : Key) (c : Cell) (h : f k = some c) : runMap f ops k = some c := by
  induction ops generalizing f with
  | nil => exact h
  | cons op ops ih =>
    exact ih _ (fun o ho => hs o (List.mem_cons_of_mem _ ho)) (step_preserves f op (hs op List.mem_cons_self) k c h)

/-- What an operation reports about key `k`, if it reports a handle for it. -/
def reported (f : FMap) (op : MOp) (k : Key) : Option Cell :=
  match op with
  | .get k' => if k' = k then f k else none
  | .insert k' _ => if k' = k then (match (f.step op).2 with | .cell c => c | _ => none) else none
  | _ => none

/-- Whatever an operation reports for `k` is what the map holds for `k` right after it. -/
theorem reported_is_stored (f : FMap) (op : MOp) (k : Key) (c : Cell) (h : reported f op k = some c) :
    (f.step op).1 k = some c := by
  cases op with
  | get k' => simp only [reported] at h; split at h <;> simp_all [FMap.step]
  | contains k' => simp [reported] at h
  | remove k' => simp [reported] at h
  | clear => simp [reported] at h
  | insert k' c' =>
    simp only [reported] at h
    split at h
    · rename_i e; subst e
      simp only [FMap.step] at h ⊢
      cases hk : f k' with
      | some x => simp [hk] at h ⊢; first | exact h | (subst h; exact hk) | (rw [← h]; exact hk)
      | none => simp [hk] at h ⊢; exact h
    · cases h

/-- All handles reported for `k` along a run, in order. -/
def reports (f : FMap) (k : Key) : List MOp → List Cell
  | [] => []
  | op :: ops => (match reported f op k with | some c => [c] | none => []) ++ reports (f.step op).1 k ops

theorem reports_all_eq (f : FMap) (k : Key) (c : Cell) (h : f k = some c) (ops : List MOp)
    (hs : ∀ op ∈ ops, Shared op) : ∀ x ∈ reports f k ops, x = c := by
  induction ops generalizing f with
  | nil => intro x hx; cases hx
  | cons op ops ih =>
    intro x hx
    simp only [reports, List.mem_append] at hx
    have hstep := step_preserves f op (hs op List.mem_cons_self) k c h
    rcases hx with hx | hx
    · cases hr : reported f op k with
      | none => simp [hr] at hx
      | some y =>
        simp [hr] at hx; subst hx
        have := reported_is_stored f op k x hr
        rw [hstep] at this; exact (Option.some.inj this).symm
    · exact ih _ hstep (fun o ho => hs o (List.mem_cons_of_mem _ ho)) x hx

/-- **One handle per key**: in any interleaving of shared operations, any two operations that
return a handle for key `k` — `get_cached`, `load`, `get_or_insert`, from any thread, through
any front-end — return the same entry (same address). -/
theorem C01_unique_handle (f : FMap) (k : Key) (ops : List MOp) (hs : ∀ op ∈ ops, Shared op) :
    ∀ x ∈ reports f k ops, ∀ y ∈ reports f k ops, x = y := by
  induction ops generalizing f with
  | nil => intro x hx; cases hx
  | cons op ops ih =>
    have hs' : ∀ o ∈ ops, Shared o := fun o ho => hs o (List.mem_cons_of_mem _ ho)
    cases hr : reported f op k with
    | none =>
      intro x hx y hy
      simp only [reports, hr, List.nil_append] at hx hy
      exact ih _ hs' x hx y hy
    | some c =>
      have hst := reported_is_stored f op k c hr
      have hall := reports_all_eq _ k c hst ops hs'
      intro x hx y hy
      simp only [reports, hr, List.mem_append, List.mem_singleton] at hx hy
      have ex : x = c := by rcases hx with h | h; exact h; exact hall x h
      have ey : y = c := by rcases hy with h | h; exact h; exact hall y h
      rw [ex, ey]

/-- **Exactly one winner**: when several threads race to create the entry for an absent key, the
first publish wins (its own cell is stored); every later publish for that key — whoever issues
it — returns the winner's cell, and the loser's cell is never stored or returned. -/
theorem C01_one_winner (f : FMap) (k : Key) (c : Cell) (h : f k = none) (ops : List MOp)
    (hs : ∀ op ∈ ops, Shared op) :
    (f.step (.insert k c)).2 = .cell (some c) ∧
    ∀ x ∈ reports (f.step (.insert k c)).1 k ops, x = c := by
  refine ⟨by simp [FMap.step, h], ?_⟩
  apply reports_all_eq _ k c _ ops hs
  simp [FMap.step, h]

/-- **No dangling handle**: every handle ever returned for `k` during the phase is still the
entry stored for `k` at the end of the phase (so it is valid and readable for as long as the cache
is shared-borrowed). -/
theorem C01_no_dangling (f : FMap) (k : Key) (ops : List MOp) (hs : ∀ op ∈ ops, Shared op) :
    ∀ x ∈ reports f k ops, runMap f ops k = some x := by
  induction ops generalizing f with
  | nil => intro x hx; cases hx
  | cons op ops ih =>
    have hs' : ∀ o ∈ ops, Shared o := fun o ho => hs o (List.mem_cons_of_mem _ ho)
    intro x hx
    simp only [reports, List.mem_append] at hx
    rcases hx with hx | hx
    · cases hr : reported f op k with
      | none => simp [hr] at hx
      | some y =>
        simp [hr] at hx; subst hx
        exact C01_presence_monotone _ ops hs' k x (reported_is_stored f op k x hr)
    · exact ih _ hs' x hx

/-- Phases: the same holds between any two removals, since a removal (`&mut self`) cannot overlap
a shared phase; after it a new phase starts from whatever map it left. -/
theorem C01_phases (f : FMap) (k : Key) (phase₁ : List MOp) (excl : MOp) (phase₂ : List MOp)
    (h1 : ∀ op ∈ phase₁, Shared op) (h2 : ∀ op ∈ phase₂, Shared op) :
    (∀ x ∈ reports f k phase₁, ∀ y ∈ reports f k phase₁, x = y) ∧
    (∀ x ∈ reports ((runMap f phase₁).step excl).1 k phase₂, ∀ y ∈ reports ((runMap f phase₁).step excl).1 k phase₂, x = y) :=
  ⟨C01_unique_handle f k phase₁ h1, C01_unique_handle _ k phase₂ h2⟩

/-- The sharded map realises these steps for every seed and shard count. -/
theorem C01_sharded (hash : Key → Nat) (m : SMap) (ops : List MOp) :
    m.run hash ops = (m.abs hash).run ops := SMap.refines hash m ops

/-! Non-vacuity: two racers and a reader on one key. -/
def cA : Cell := ⟨.int 1, false, 0, false, 10⟩
def cB : Cell := ⟨.int 2, false, 0, false, 11⟩
example : reports (fun _ => none) ⟨0, "k"⟩ [.get ⟨0, "k"⟩, .get ⟨0, "k"⟩, .insert ⟨0, "k"⟩ cA, .insert ⟨0, "k"⟩ cB, .get ⟨0, "k"⟩] = [cA, cA, cA] := by
  simp [reports, reported, FMap.step]

end AmVerif.Props.C01
