import AmVerif.Lemmas.Fault
import AmVerif.Gen.Skel
/-!
# C09 — faults while loading are contained

A fault is an `io::Error` answered by the source at some read index, or an error / a panic of a
loader at some invocation. In the model the source (`Env.read`, `Env.readDir`) is a function of the
running read counter and `Env.loaderFault` a function of the running checkpoint counter, so *every*
fault plan is just an `Env`; loaders are arbitrary `Prog` terms (their continuations are Lean
functions). All theorems below are therefore quantified over every environment, every loader
program, every fuel and every state: "whatever fault happens, wherever".

* `C09_cached_untouched` — every entry cached before an evaluation is cached, unchanged (value,
  reload id, flag, address) afterwards, for every outcome.
* `C09_recording_restored`, `C09_frames_popped_exactly`, `C09_guard_is_drop_guard` — the thread's
  recording stack is restored on every exit path (return, error, panic, fuel exhaustion).
* `C09_no_partial_value`, `C09_insert_after_try`, `C09_write_only_after_ok` — a load that does not
  return `ok` leaves, for every key, exactly what evaluating the loader body left.
* `C09_failed_reload_keeps_value`, `C09_reload_other_keys_untouched` — a reload whose loader fails
  (error, panic, exhaustion) changes no cached entry.
* `C09_reload_panic_contained`, `C09_reload_continues_after_panic`, `C09_reloader_survives` — a
  panicking loader does not kill the reloader thread (today's source: `reloadCatchesPanic = true`).
* `C09_recovers`, `C09_retry_is_first_load` — what a failed attempt leaves behind besides the
  entries of completed nested loads (counters, logs) is consulted by no later evaluation.
-/
namespace AmVerif.Props.C09
open AmVerif.Gen AmVerif.Model

/-! ## Facts regenerated from the source -/

/-- `record` and `no_record` install their frame through `CellGuard::replace` *before* calling
`f` and contain no explicit restore: the restore is `Drop for CellGuard` (`cell.set(val)`), which
runs on unwinding as well. (A save / call / restore sequence has a `set` after `f` in the body.) -/
theorem C09_guard_is_drop_guard :
    skel_hot_reloading_records_record = [.closure [.call .s_replace, .call .s_f], .call .s_with] ∧
    skel_hot_reloading_records_no_record = [.closure [.call .s_replace, .call .s_f], .call .s_with] ∧
    skel_hot_reloading_records_CellGuard_replace = [.call .s_replace] ∧
    skel_hot_reloading_records_Drop_for_CellGuard_drop = [.call .s_set] := ⟨rfl, rfl, rfl, rfl⟩

/-- `add_asset`: the entry is inserted after the `?` on `load_and_record` (nothing is inserted for a
load that failed or unwound). -/
theorem C09_insert_after_try :
    skel_anycache_RawCache_add_asset = [.call .s_load_and_record, .try_, .call .s_insert] := rfl

/-- `reload_untyped`: the loader runs under `catch_unwind`; `handle.write` is reached only in the
`Ok` arm, after both the panic check and the error check. -/
theorem C09_write_only_after_ok :
    skel_anycache_AnyCache_reload_untyped =
      [.call .s_get_cached_untyped, .try_, .call .s_is_dynamic, .branch [[.ret], []],
       .closure [.branch [[.call .s_record], [.call .s_load_asset]]], .call .s_AssertUnwindSafe, .call .s_catch_unwind,
       .branch [[], [.ret]], .branch [[.call .s_write], []]] := rfl

/-- Today's source contains a loader panic during a reload and leaves static entries alone. -/
theorem C09_cfg_ok : reloadCatchesPanic = true ∧ reloadSkipsStatic = true := by decide

/-! ## Values already cached are untouched -/

/-- Whatever fault happens during any evaluation (`env` is arbitrary: every read may fail with any
error, every loader checkpoint may fail or panic), every entry cached before is still cached,
unchanged, afterwards — whatever the outcome. -/
theorem C09_cached_untouched (env : Env) (fuel : Nat) (s : St) (p : Prog) (k : Key) (c : Cell)
    (h : s.lookup k = some c) : (eval env fuel s p).1.lookup k = some c := eval_mono env fuel s p k c h

/-- The same for the public operations `load` and `load_owned`. -/
theorem C09_cached_untouched_op (env : Env) (fuel : Nat) (s : St) (key : Key) (k : Key) (c : Cell)
    (h : s.lookup k = some c) :
    (step env fuel s (.load key)).1.lookup k = some c ∧ (step env fuel s (.loadOwned key)).1.lookup k = some c := by
  have h1 := eval_mono env fuel { s with recs := [] } (.load key Prog.ret') k c (by simpa [St.lookup] using h)
  have h2 := eval_mono env fuel { s with recs := [] } (.loadOwned key Prog.ret') k c (by simpa [St.lookup] using h)
  constructor
  · simp only [step, evalTop]
    generalize eval env fuel { s with recs := [] } (.load key Prog.ret') = r at h1
    obtain ⟨s1, o⟩ := r
    cases o <;> simpa [St.lookup] using h1
  · simp only [step, evalTop]
    simpa [St.lookup] using h2

/-! ## The recording of the calling thread is restored -/

/-- Through every evaluation — outcome `ok`, `err`, `panicked` or `diverged` alike — the recording
stack below the top frame is untouched and the depth is the same; a thread that was not recording is
not recording afterwards. -/
theorem C09_recording_restored (env : Env) (fuel : Nat) (s : St) (p : Prog) :
    (eval env fuel s p).1.recs.tail = s.recs.tail ∧
    (eval env fuel s p).1.recs.length = s.recs.length ∧
    (s.recs = [] → (eval env fuel s p).1.recs = []) := by
  have h := eval_shape env fuel s p
  refine ⟨h.1, h.2, fun h0 => ?_⟩
  have := h.2
  rw [h0] at this
  exact List.eq_nil_of_length_eq_zero this

/-- Every frame pushed by `record` / `no_record` / a helper thread is popped exactly, whatever the
body does (the body is an arbitrary state transformer with an arbitrary outcome): the recording
after `no_record(f)` is *equal* to the recording before, also when `f` panics. -/
theorem C09_frames_popped_exactly (env : Env) (fuel : Nat) (s : St) (body : Prog)
    (frame : Option (List Dep)) (g : St → St × Outcome) :
    (withFrame true frame g s).1.recs = s.recs ∧
    (onFreshThread g s).1.recs = s.recs ∧
    (eval env (fuel + 2) s (.noRecord body Prog.ret')).1.recs = s.recs ∧
    (eval env (fuel + 2) s (.onThread body Prog.ret')).1.recs = s.recs := by
  refine ⟨withFrame_restores frame g s, rfl, ?_, ?_⟩
  · simp only [eval]
    have h := withFrame_restores none (fun s => eval env (fuel + 1) s body) s
    generalize withFrame true none (fun s => eval env (fuel + 1) s body) s = r at h
    obtain ⟨s1, o, d⟩ := r
    cases o <;> simpa [cont, eval, Prog.ret'] using h
  · simp only [eval]
    have h : (onFreshThread (fun s => eval env (fuel + 1) s body) s).1.recs = s.recs := rfl
    generalize onFreshThread (fun s => eval env (fuel + 1) s body) s = r at h
    obtain ⟨s1, o⟩ := r
    cases o <;> simpa [cont, eval, Prog.ret'] using h

/-- `load_and_record` whose loader panics (or exhausts the fuel) leaves the recording exactly as it
was: the `record` frame is popped, nothing is handed to the enclosing record. -/
theorem C09_load_panic_restores (env : Env) (g : St → St × Outcome) (key : Key) (s : St)
    (hp : (loadAndRecord env g key s).2 = .panicked ∨ (loadAndRecord env g key s).2 = .diverged)
    (hpush : recordsAsset (env.types key.ty).hot env.hasReloader = true) :
    (loadAndRecord env g key s).1.recs = s.recs := by
  unfold loadAndRecord at hp ⊢
  rw [hpush] at hp ⊢
  have h := withFrame_restores (some []) g s
  generalize withFrame true (some []) g s = r at h hp ⊢
  obtain ⟨s1, o, d⟩ := r
  cases o with
  | ok v => simp at hp
  | err e => simp at hp
  | panicked => exact h
  | diverged => exact h

/-! ## No partially built value becomes visible -/

/-- the state the loader body of `load key` / `load_owned key` starts from -/
def loaderStart (env : Env) (key : Key) (s : St) : St :=
  frameStart (recordsAsset (env.types key.ty).hot env.hasReloader) (some [])
    (s.record (recordsAsset (env.types key.ty).hot env.hasReloader) (.asset key))

/-- A `load` of an absent key that does not return `ok` (error, panic, exhaustion — at any point,
for any reason) leaves, for *every* key, exactly what evaluating the loader body left: in
particular the key itself is absent afterwards unless a nested successful load of that same key
cached it, and the only new entries are those of nested loads that completed. -/
theorem C09_no_partial_value (env : Env) (f : Nat) (s : St) (key : Key)
    (habs : s.lookup key = none)
    (hfail : ∀ v, (eval env (f + 2) s (.load key Prog.ret')).2 ≠ .ok v) (k' : Key) :
    (eval env (f + 2) s (.load key Prog.ret')).1.lookup k' =
      (eval env (f + 1) (loaderStart env key s) ((env.types key.ty).prog key.id)).1.lookup k' := by
  have hl := loadAndRecord_lookup env (fun s => eval env (f + 1) s ((env.types key.ty).prog key.id)) key
    (s.record (recordsAsset (env.types key.ty).hot env.hasReloader) (.asset key)) k'
  simp only [eval] at hfail ⊢
  rw [St.record_lookup, habs] at hfail ⊢
  simp only [] at hfail ⊢
  unfold loaderStart
  rw [← hl]
  generalize loadAndRecord env _ key _ = r at hfail ⊢
  obtain ⟨s1, o⟩ := r
  cases o with
  | ok v => exact absurd (by simp [eval, Prog.ret']) (hfail (s1.insertKeepFirst key (newCell env key.ty v s1.next)).2.val)
  | err e => simp [cont, eval, Prog.ret']
  | panicked => simp [cont]
  | diverged => simp [cont]

/-- `load_owned` never caches the asset it builds, whatever its outcome. -/
theorem C09_load_owned_caches_nothing (env : Env) (f : Nat) (s : St) (key : Key) (k' : Key) :
    (eval env (f + 2) s (.loadOwned key Prog.ret')).1.lookup k' =
      (eval env (f + 1) (loaderStart env key s) ((env.types key.ty).prog key.id)).1.lookup k' := by
  have hl := loadAndRecord_lookup env (fun s => eval env (f + 1) s ((env.types key.ty).prog key.id)) key
    (s.record (recordsAsset (env.types key.ty).hot env.hasReloader) (.asset key)) k'
  simp only [eval]
  unfold loaderStart
  rw [← hl]
  generalize loadAndRecord env _ key _ = r
  obtain ⟨s1, o⟩ := r
  cases o <;> simp [cont, eval, Prog.ret']

/-! ## Reloads -/

/-- the loader evaluation inside `reload_untyped` (state, outcome, recorded dependencies) -/
def reloadEval (env : Env) (fuel : Nat) (s : St) (key : Key) : St × Outcome × List Dep :=
  withFrame true (some []) (fun s => eval env fuel s ((env.types key.ty).prog key.id)) { s with recs := [] }

theorem reloadEval_le (env : Env) (fuel : Nat) (s : St) (key : Key) : s.Le (reloadEval env fuel s key).1 := by
  have h := withFrame_le true (some []) (fun s => eval env fuel s ((env.types key.ty).prog key.id)) { s with recs := [] }
    (fun s => eval_mono env fuel s _)
  intro k c hk
  exact h k c (by simpa [St.lookup] using hk)

/-- **A failed reload leaves the cache unchanged**: if the loader run by `reload_untyped` does not
return `ok` — error, panic, exhaustion, at any point, for any reason — every entry cached before
(the reloaded asset included: value, reload id, flag, address) is unchanged. -/
theorem C09_failed_reload_keeps_value (env : Env) (fuel : Nat) (s : St) (key : Key)
    (hfail : ∀ v, (reloadEval env fuel s key).2.1 ≠ .ok v) (k : Key) (c : Cell)
    (h : s.lookup k = some c) : (reloadUntyped env fuel s key).1.lookup k = some c := by
  have hm := reloadEval_le env fuel s key k c h
  unfold reloadUntyped
  unfold reloadEval at hfail hm
  cases hk : s.lookup key with
  | none => exact h
  | some c0 =>
    simp only []
    split
    · exact h
    · generalize withFrame true (some []) _ _ = r at hfail hm ⊢
      obtain ⟨s1, o, d⟩ := r
      cases o with
      | ok v => exact absurd rfl (hfail v)
      | err e => simpa [St.lookup] using hm
      | panicked => simp only []; split <;> simpa [St.lookup] using hm
      | diverged => simpa [St.lookup] using hm

/-- For the reloaded key alone (the form of the statement: "for a faulted reload the asset keeps
its previous value"), present or not. -/
theorem C09_failed_reload_keeps_key (env : Env) (fuel : Nat) (s : St) (key : Key)
    (hfail : ∀ v, (reloadEval env fuel s key).2.1 ≠ .ok v) :
    (reloadUntyped env fuel s key).1.lookup key = s.lookup key := by
  cases hk : s.lookup key with
  | some c => exact C09_failed_reload_keeps_value env fuel s key hfail key c hk
  | none => simp [reloadUntyped, hk]

theorem setCell_lookup_other (s : St) (key k : Key) (c : Cell) (hne : k ≠ key) :
    (s.setCell key c).lookup k = s.lookup k := by
  unfold St.setCell St.lookup
  simp only []
  induction s.map with
  | nil => rfl
  | cons x xs ih =>
    simp only [List.map_cons, List.find?_cons]
    by_cases hx : x.1 = key
    · have h1 : ¬ (x.1 = k) := fun e => hne (e.symm.trans hx)
      have h2 : ¬ (key = k) := fun e => hne e.symm
      simp only [hx, if_true, h2, decide_false] at ih ⊢
      exact ih
    · simp only [hx, if_false]
      by_cases hxk : x.1 = k
      · simp only [hxk, decide_true]
      · simp only [hxk, decide_false]
        exact ih

/-- Whatever the outcome of a reload, entries of *other* keys cached before are unchanged (a
successful reload writes the reloaded entry only). -/
theorem C09_reload_other_keys_untouched (env : Env) (fuel : Nat) (s : St) (key : Key) (k : Key) (c : Cell)
    (hne : k ≠ key) (h : s.lookup k = some c) : (reloadUntyped env fuel s key).1.lookup k = some c := by
  have hm := reloadEval_le env fuel s key k c h
  unfold reloadUntyped
  unfold reloadEval at hm
  cases hk : s.lookup key with
  | none => exact h
  | some c0 =>
    simp only []
    split
    · exact h
    · generalize withFrame true (some []) _ _ = r at hm ⊢
      obtain ⟨s1, o, d⟩ := r
      cases o with
      | ok v =>
        simp only []
        split
        · rw [St.swapValue_lookup, setCell_lookup_other _ _ _ _ hne]; simpa [St.lookup] using hm
        · rw [St.handOut_lookup]; simpa [St.lookup] using hm
      | err e => simpa [St.lookup] using hm
      | panicked => simp only []; split <;> simpa [St.lookup] using hm
      | diverged => simpa [St.lookup] using hm

/-- **A panicking loader during a reload is contained** (obligation on today's source:
`reloadCatchesPanic = true`): `reload_untyped` returns `None` — the thread goes on. -/
theorem C09_reload_panic_contained (env : Env) (fuel : Nat) (s : St) (key : Key)
    (hp : (reloadEval env fuel s key).2.1 = .panicked) :
    ∃ s1, reloadUntyped env fuel s key = (s1, .done none) := by
  unfold reloadUntyped
  unfold reloadEval at hp
  cases hk : s.lookup key with
  | none => exact ⟨s, rfl⟩
  | some c0 =>
    simp only []
    split
    · exact ⟨s, rfl⟩
    · generalize withFrame true (some []) _ _ = r at hp ⊢
      obtain ⟨s1, o, d⟩ := r
      simp only at hp
      subst hp
      -- `if reloadCatchesPanic then … else …` with the regenerated `reloadCatchesPanic := true`
      exact ⟨_, rfl⟩

/-- `reload_untyped` ends the reloader thread only if the loader exhausted every fuel (the model's
rendering of unbounded recursion): never because of an error or a panic. -/
theorem reloadUntyped_died (env : Env) (fuel : Nat) (s : St) (key : Key) (s1 : St)
    (hd : reloadUntyped env fuel s key = (s1, .died)) : (reloadEval env fuel s key).2.1 = .diverged := by
  have hc : reloadCatchesPanic = true := by decide
  have hs : reloadSkipsStatic = true := by decide
  unfold reloadUntyped at hd
  unfold reloadEval
  cases hk : s.lookup key with
  | none => simp [hk] at hd
  | some c0 =>
    simp only [hk, hs, Bool.true_and] at hd
    cases hdyn : c0.dyn with
    | false => simp [hdyn] at hd
    | true =>
      simp only [hdyn, Bool.not_true, Bool.false_eq_true, if_false, if_true] at hd
      generalize withFrame true (some []) _ _ = r at hd ⊢
      obtain ⟨s2, o, d⟩ := r
      cases o with
      | ok v => simp at hd
      | err e => simp at hd
      | panicked => simp [hc] at hd
      | diverged => rfl

/-- After a panicking reload of `k`, `run_update` goes on with the remaining keys, with the graph
and the cache as they were. -/
theorem C09_reload_continues_after_panic (env : Env) (fuel : Nat) (s : St) (r : RSt) (k : Key) (ks : List Key)
    (node : GNode) (hnode : r.graph.get (.asset k) = some node) (hty : node.typed = true) (halive : r.dead = false)
    (hp : (reloadEval env fuel s k).2.1 = .panicked) :
    ∃ s1, reloadAll env fuel (k :: ks) (s, r) = reloadAll env fuel ks (s1, r) ∧ ∀ k' c, s.lookup k' = some c → s1.lookup k' = some c := by
  obtain ⟨s1, h1⟩ := C09_reload_panic_contained env fuel s k hp
  refine ⟨s1, ?_, ?_⟩
  · simp only [reloadAll, halive, hnode, hty, h1, Bool.false_eq_true, if_false, if_true]
  · intro k' c hk'
    have := C09_failed_reload_keeps_value env fuel s k (by rw [hp]; intro v; simp) k' c hk'
    rw [h1] at this
    exact this

/-- No loader evaluation exhausts the fuel, from any state (loaders return, fail or panic). -/
def Returns (env : Env) (fuel : Nat) : Prop := ∀ s key, (reloadEval env fuel s key).2.1 ≠ .diverged

theorem reloadAll_alive (env : Env) (fuel : Nat) (hret : Returns env fuel) :
    ∀ (ks : List Key) (s : St) (r : RSt), r.dead = false → (reloadAll env fuel ks (s, r)).2.dead = false := by
  intro ks
  induction ks with
  | nil => intro s r h; exact h
  | cons k ks ih =>
    intro s r h
    simp only [reloadAll, h, Bool.false_eq_true, if_false]
    cases hg : r.graph.get (.asset k) with
    | none => exact ih s r h
    | some node =>
      simp only []
      split
      · have hd := reloadUntyped_died env fuel s k
        generalize reloadUntyped env fuel s k = x at hd ⊢
        obtain ⟨s1, o⟩ := x
        cases o with
        | died => exact absurd (hd s1 rfl) (hret s k)
        | done d =>
          cases d with
          | none => exact ih s1 r h
          | some p =>
            obtain ⟨deps, b⟩ := p
            cases b with
            | true => exact ih s1 _ (by first | exact h | rfl)
            | false => exact ih s1 _ (by first | exact h | rfl)
      · exact ih s r h

theorem processMsgs_dead (s : St) (r : RSt) : (processMsgs s r).2.dead = r.dead := by
  unfold processMsgs
  simp only []
  generalize s.out = l
  induction l generalizing r with
  | nil => rfl
  | cons m ms ih =>
    simp only [List.foldl]
    rw [ih]
    cases m <;> rfl

/-- **The reloader thread survives every fault**: with loaders that return, fail or panic — errors and
panics at any point of any reload — `hot_reload` leaves the thread alive (it answers its caller),
provided the topological sort of the pass returns (C08: it does on every finite graph). -/
theorem C09_reloader_survives (env : Env) (fuel : Nat) (s : St) (r : RSt) (hret : Returns env fuel)
    (halive : r.dead = false)
    (htopo : (topo (processMsgs s r).2.graph fuel (processMsgs s r).2.toReload).isSome = true) :
    (hotReload env fuel s r).2.dead = false := by
  unfold hotReload
  simp only [halive, Bool.false_eq_true, if_false]
  have hpd := processMsgs_dead s r
  generalize processMsgs s r = x at hpd htopo ⊢
  obtain ⟨s0, r0⟩ := x
  simp only at hpd htopo ⊢
  split
  · rw [hpd]; exact halive
  · unfold runUpdate
    cases ht : topo r0.graph fuel r0.toReload with
    | none => simp [ht] at htopo
    | some keys =>
      simp only []
      have h1 := reloadAll_alive env fuel hret keys s0 { r0 with toReload := [] } (by simpa [hpd] using halive)
      generalize reloadAll env fuel keys (s0, { r0 with toReload := [] }) = y at h1 ⊢
      obtain ⟨s2, r2⟩ := y
      rw [processMsgs_dead]
      exact h1

/-! ## Later loads pick up the repaired source -/

/-- **What a failed attempt leaves behind is consulted by nobody.** Under a repaired environment
(no fault plan left: its answers do not depend on the running read / checkpoint index), two states
with the same map, address counter and recording — e.g. the state after a failed load versus the
same map reached without the failed attempt's reads, checkpoints, messages — evaluate every
program to the same outcome and to states that again differ only in counters and logs. -/
theorem C09_recovers (env : Env) (hst : env.Steady) (fuel : Nat) (p : Prog) (s t : St) (h : Sim s t) :
    (eval env fuel s p).2 = (eval env fuel t p).2 ∧ Sim (eval env fuel s p).1 (eval env fuel t p).1 :=
  ⟨(eval_sim env hst fuel p s t h).2, (eval_sim env hst fuel p s t h).1⟩

/-- The retry of a failed `load`, spelled out: let `s'` be the state a failed `load key` (evaluated
under ANY environment `envF`, i.e. any fault plan) left. Under a repaired environment `env`, the retry
from `s'` gives the result a first `load key` gives from any state with the same map (the entries of
the nested loads that completed), address counter and recording — the failed attempt leaves no flag,
placeholder or lock behind that a later `load` could see. -/
theorem C09_retry_is_first_load (envF env : Env) (hst : env.Steady) (fuelF fuel : Nat) (s t : St) (key : Key)
    (ht : Sim (step envF fuelF s (.load key)).1 t) :
    (step env fuel (step envF fuelF s (.load key)).1 (.load key)).2 = (step env fuel t (.load key)).2 := by
  generalize (step envF fuelF s (.load key)).1 = s' at ht ⊢
  have h := eval_sim env hst fuel (.load key Prog.ret') { s' with recs := [] } { t with recs := [] }
    ⟨ht.map, ht.next, rfl⟩
  simp only [step, evalTop] at h ⊢
  generalize eval env fuel { s' with recs := [] } (.load key Prog.ret') = r1 at h ⊢
  generalize eval env fuel { t with recs := [] } (.load key Prog.ret') = r2 at h ⊢
  obtain ⟨s1, o1⟩ := r1
  obtain ⟨s2, o2⟩ := r2
  obtain ⟨hs, ho⟩ := h
  simp only at ho
  subst ho
  cases o1 with
  | ok v =>
    simp only []
    have : St.lookup { s1 with recs := [] } key = St.lookup { s2 with recs := [] } key := by
      simp only [St.lookup]; rw [hs.map]
    rw [this]
  | err e => rfl
  | panicked => rfl
  | diverged => rfl

/-! ## Non-vacuity -/

/-- an environment whose every read fails (every read index is a fault), whose every loader
checkpoint panics, with one hot script-like type that passes a checkpoint, reads, then loads -/
def envAllFaults : Env :=
  { read := fun _ _ _ => .error ⟨false, "Other", "x"⟩, readDir := fun _ _ => .error ⟨false, "Other", "x"⟩,
    types := fun _ => { hot := true, prog := fun id => .tick fun f => match f with
      | some true => .panic
      | _ => .read id "s" fun r => match r with | .ok _ => .ret (.int 1) | .error e => .fail (.io e) },
    hasReloader := true, loaderFault := fun _ => some true }

/-- a repaired environment (nothing depends on the index) -/
def envSteady : Env :=
  { read := fun _ _ _ => .ok [], readDir := fun _ _ => .ok [], types := fun _ => { hot := true, prog := fun _ => .ret (.int 1) },
    hasReloader := true }

def cell0 : Cell := { val := .int 7, dyn := true, rid := 3, flag := false, addr := 0 }
def st0 : St := { map := [(⟨0, "a"⟩, cell0)], next := 1 }

example : envSteady.Steady := ⟨fun _ _ _ _ => rfl, fun _ _ _ => rfl, fun _ _ => rfl⟩

-- a load that panics at its first checkpoint: the cached entry survives, the key stays absent
example : (eval envAllFaults 10 st0 (.load ⟨0, "b"⟩ Prog.ret')).2 = .panicked := by
  simp [eval, envAllFaults, st0, St.lookup, St.record, loadAndRecord, withFrame, recordsAsset, cont]
example : (eval envAllFaults 10 st0 (.load ⟨0, "b"⟩ Prog.ret')).1.lookup ⟨0, "a"⟩ = some cell0 :=
  C09_cached_untouched envAllFaults 10 st0 _ ⟨0, "a"⟩ cell0 (by simp [st0, St.lookup])

-- a reload whose loader panics: hypotheses of the reload theorems are met, the thread goes on
example : (reloadEval envAllFaults 10 st0 ⟨0, "a"⟩).2.1 = .panicked := by
  simp [reloadEval, withFrame, eval, envAllFaults]
example : ∃ s1, reloadUntyped envAllFaults 10 st0 ⟨0, "a"⟩ = (s1, .done none) :=
  C09_reload_panic_contained envAllFaults 10 st0 ⟨0, "a"⟩ (by simp [reloadEval, withFrame, eval, envAllFaults])
example : Returns envAllFaults 10 := by
  intro s key; simp [reloadEval, withFrame, eval, envAllFaults]

-- an I/O error instead of a panic (no loader fault, every read fails): the reload fails, nothing changes
example : (reloadEval { envAllFaults with loaderFault := fun _ => none } 10 st0 ⟨0, "a"⟩).2.1 = .err (.io ⟨false, "Other", "x"⟩) := by
  simp [reloadEval, withFrame, eval, envAllFaults]

-- frames: a panicking body inside `no_record` on a recording thread
example : (eval envAllFaults 5 { st0 with recs := [some [.file "q" "s"]] } (.noRecord .panic Prog.ret')).1.recs = [some [.file "q" "s"]] :=
  (C09_frames_popped_exactly envAllFaults 3 _ .panic none (fun s => (s, .panicked))).2.2.1

end AmVerif.Props.C09
