import AmVerif.Model.ReloaderFacts
/-!
# C15 — the reloader is quiet when idle and goes away with its cache

**Model** (`Model/Reloader.lean`, `iter`): one iteration of the outer loop of
`hot_reloading_thread` as a function of the two channels' state (pending messages, sender alive)
and of `Select::ready`'s pick. Assumed semantics of crossbeam's `Select::ready` (modelled, exercised
by the `idle` engine's primitive-conformance op): it blocks while no operation is ready, an operation
is ready when its channel has a message **or is disconnected**, and any ready operation may be
returned. The model is parametric in the one source fact that matters, `leavesOnDisconnect`
(computed from the regenerated skeleton by `genCfg`).

The model yields `blocked / continue / exit` only; that a blocked thread uses no CPU and that an
exited thread is gone is the runtime's part (observed by the `idle` engine through `/proc`).
-/
namespace AmVerif.Props.C15
open AmVerif.Gen AmVerif.Model AmVerif.Model.Reloader

/-! ## The skeleton the model transcribes -/

/-- both channels are registered with the `Select`, `cache_msg` first (index 0), `events` second (index 1) -/
theorem skel_thread_setup : skel_hot_reloading_mod_hot_reloading_thread.take 2 = [.call .s_recv, .call .s_recv] := rfl

def outerLoop : List Reloader.Sk → List Reloader.Sk
  | [_, _, .loop body] => body
  | _ => []
def drainArms : List Reloader.Sk → List (List Reloader.Sk)
  | _ :: .loop [.call .s_try_recv, .branch arms] :: _ => arms
  | _ => []

/-- an iteration starts by blocking in `ready`, then runs the drain loop -/
theorem skel_iteration_head : (outerLoop skel_hot_reloading_mod_hot_reloading_thread).take 1 = [.call .s_ready] := rfl
/-- the drain loop handles the four messages ... -/
theorem skel_drain_arms : (drainArms (outerLoop skel_hot_reloading_mod_hot_reloading_thread)).take 4 =
    [[.loop [.call .s_try_recv, .branch [[.call .s_handle_events], []]], .call .s_update_if_local, .call .s_notify],
     [.call .s_use_static_ref], [.call .s_clear_local_cache], [.call .s_add_asset]] := rfl
/-- ... and ends on a receive error: by leaving the drain loop only, or the drain loop on `Empty` and the thread on `Disconnected` -/
theorem skel_drain_exit :
    (drainArms (outerLoop skel_hot_reloading_mod_hot_reloading_thread)).drop 4 = [[.brk]] ∨
    (drainArms (outerLoop skel_hot_reloading_mod_hot_reloading_thread)).drop 4 = [[.brk], [.call .s_break_outer, .brk]] := by
  first | exact Or.inl rfl | exact Or.inr rfl
/-- after the drain loop: only if `ready` named the event channel, take one event batch; leave the thread
when the event channel is disconnected -/
theorem skel_events_part : (outerLoop skel_hot_reloading_mod_hot_reloading_thread).drop 2 =
    [.branch [[.call .s_try_recv, .branch [[.call .s_handle_events], [], [.brk]]], []]] := rfl

/-- F-C15: the drain loop leaves the *thread* when the cache's channel is disconnected. -/
theorem C15_cfg_leavesOnDisconnect : genCfg.leavesOnDisconnect = true := by decide

/-! ## Quiet when idle -/

/-- **C15_idle_blocks.** Cache alive, an event sender alive, nothing queued: the iteration blocks in
`ready` (whatever the source says about disconnection, whatever `ready` would pick). -/
theorem C15_idle_blocks (lc : LoopCfg) (pick : Bool) (s : LoopSt) (h1 : s.msgConn = true) (h2 : s.evConn = true)
    (h3 : s.msgQ = 0) (h4 : s.evQ = 0) : iter lc pick s = .blocked := by
  simp [iter, h1, h2, h3, h4]

/-- Conversely the thread only ever blocks when there is nothing to do and somebody may still send. -/
theorem C15_blocks_only_when_idle (lc : LoopCfg) (pick : Bool) (s : LoopSt) (h : iter lc pick s = .blocked) :
    s.msgConn = true ∧ s.evConn = true ∧ s.msgQ = 0 ∧ s.evQ = 0 := by
  obtain ⟨mq, eq, mc, ec⟩ := s
  obtain ⟨l1, l2⟩ := lc
  cases mc <;> cases ec <;> cases mq <;> cases eq <;> cases l1 <;> cases l2 <;> cases pick <;> simp [iter] at h ⊢

example : iter ⟨false, true⟩ true ⟨0, 0, true, true⟩ = .blocked := by decide
example : iter ⟨false, true⟩ true ⟨2, 1, true, true⟩ = .continue_ ⟨0, 0, true, true⟩ := by decide

/-! ## Goes away with its cache -/

/-- Full-strength statement: once the cache (the only `cache_msg` sender) is gone, the very next
iteration ends the thread — for every pick, whatever is still queued, whether or not an event
sender is still alive (i.e. for every source kind). -/
def C15_stops_after_drop_stmt (lc : LoopCfg) : Prop :=
  ∀ (pick : Bool) (s : LoopSt), s.msgConn = false → iter lc pick s = .exit

/-- **C15_stops_after_drop (repaired loop).** -/
theorem C15_stops_after_drop (ee : Bool) : C15_stops_after_drop_stmt ⟨true, ee⟩ := by
  intro pick s h
  simp [iter, h]

example : iter ⟨true, true⟩ false ⟨3, 2, false, true⟩ = .exit := by decide

/-- ... in terms of runs: no pick sequence of length ≥ 1 leaves the thread alive. -/
theorem C15_stops_within_one_iteration (ee : Bool) (s : LoopSt) (h : s.msgConn = false) (p : Bool) (ps : List Bool) :
    runLoop ⟨true, ee⟩ s (p :: ps) = none := by
  simp [runLoop, C15_stops_after_drop ee p s h]

/-- **F-C15 at model level.** In the defective loop, with the cache gone and an event sender alive
(the in-memory source keeps one; the `FileSystem` watcher holds one until a send *fails*, which needs
the thread gone — they keep each other alive), every iteration returns at once and continues: -/
theorem C15_spins (ee : Bool) (pick : Bool) (s : LoopSt) (h1 : s.msgConn = false) (h2 : s.evConn = true) :
    ∃ s', iter ⟨false, ee⟩ pick s = .continue_ s' ∧ s'.msgConn = false ∧ s'.evConn = true ∧ s'.msgQ = 0 ∧ s'.evQ ≤ s.evQ := by
  unfold iter
  simp only [h1, h2]
  by_cases he : s.evQ > 0 <;> cases pick <;> simp [he] <;> omega

/-- ... a fixed point once the queues are drained: the thread neither blocks nor exits, it spins. -/
theorem C15_spins_fixpoint (ee : Bool) (pick : Bool) (s : LoopSt) (h1 : s.msgConn = false) (h2 : s.evConn = true)
    (h3 : s.msgQ = 0) (h4 : s.evQ = 0) : iter ⟨false, ee⟩ pick s = .continue_ s := by
  cases s; simp_all [iter]

/-- ... for ever: no pick sequence makes it exit or block. -/
theorem C15_spins_forever (ee : Bool) (s : LoopSt) (h1 : s.msgConn = false) (h2 : s.evConn = true) (ps : List Bool) :
    ∃ s', runLoop ⟨false, ee⟩ s ps = some (s', false) := by
  induction ps generalizing s with
  | nil => exact ⟨s, rfl⟩
  | cons p ps ih =>
    obtain ⟨s', hs, c1, c2, _, _⟩ := C15_spins ee p s h1 h2
    obtain ⟨s'', h⟩ := ih s' c1 c2
    exact ⟨s'', by simp [runLoop, hs, h]⟩

theorem C15_stops_after_drop_false_in_defective_loop (ee : Bool) : ¬ C15_stops_after_drop_stmt ⟨false, ee⟩ := by
  intro h
  have := h false ⟨0, 0, false, true⟩ rfl
  revert this; cases ee <;> decide

/-- With the cache gone and *no* event sender left, the defective loop does exit — but only when
`ready` happens to name the event channel. -/
theorem C15_defective_exit_needs_event_pick (s : LoopSt) (h1 : s.msgConn = false) (h2 : s.evConn = false) (h3 : s.evQ = 0) :
    iter ⟨false, true⟩ true s = .exit ∧ ∃ s', iter ⟨false, true⟩ false s = .continue_ s' := by
  cases s; simp_all [iter]

/-! ## Quiet when the source has released its sender -/

/-- F-C15b: the events arm leaves the thread when the event channel is disconnected. -/
theorem C15_cfg_leavesOnEventsDisconnect : genCfg.leavesOnEventsDisconnect = true := by decide

/-- Full-strength statement: a LIVE cache whose source holds no `EventSender` any more (it never
stored it, or dropped it later) does not keep a running thread: with nothing queued the next
iteration ends the thread (hot-reloading is over; `reload` / `add_asset` ignore the failed sends). -/
def C15_quiet_without_sender_stmt (lc : LoopCfg) : Prop :=
  ∀ (pick : Bool) (s : LoopSt), s.msgConn = true → s.evConn = false → s.msgQ = 0 → s.evQ = 0 → iter lc pick s = .exit

/-- **C15_quiet_without_sender (events arm breaks on `Disconnected`).** -/
theorem C15_quiet_without_sender (l : Bool) : C15_quiet_without_sender_stmt ⟨l, true⟩ := by
  intro pick s h1 h2 h3 h4
  simp [iter, h1, h2, h3, h4]

/-- ... and queued work only delays the exit: whatever is queued, no iteration blocks, and an iteration that
looks at the event channel after it was drained exits. -/
theorem C15_without_sender_never_blocks (lc : LoopCfg) (pick : Bool) (s : LoopSt) (h : s.evConn = false) :
    iter lc pick s ≠ .blocked := by
  intro hb
  have := C15_blocks_only_when_idle lc pick s hb
  simp [h] at this

/-- **Refutation for an events arm that ignores `Disconnected`** (seeded mutation C15-b): `ready` returns at
once for ever, the iteration continues with the same state — the thread busy-spins for the whole life
of the cache. -/
theorem C15_busy_when_events_exit_missing (l pick : Bool) (s : LoopSt) (h1 : s.msgConn = true) (h2 : s.evConn = false)
    (h3 : s.msgQ = 0) (h4 : s.evQ = 0) : iter ⟨l, false⟩ pick s = .continue_ s := by
  cases s; simp_all [iter]

theorem C15_quiet_without_sender_false_without_events_exit (l : Bool) : ¬ C15_quiet_without_sender_stmt ⟨l, false⟩ := by
  intro h
  have h1 := h false ⟨0, 0, true, false⟩ rfl rfl rfl rfl
  rw [C15_busy_when_events_exit_missing l false ⟨0, 0, true, false⟩ rfl rfl rfl rfl] at h1
  cases h1

/-- the verdicts the driver computes for a live cache without sender -/
theorem C15_verdict_without_sender (l : Bool) :
    verdict ⟨l, true⟩ ⟨0, 0, true, false⟩ = .exited ∧ verdict ⟨l, false⟩ ⟨0, 0, true, false⟩ = .spinning := by
  cases l <;> decide

example : iter ⟨true, true⟩ true ⟨0, 0, true, false⟩ = .exit := by decide

theorem C15_quiet_without_sender_today : C15_quiet_without_sender_stmt genCfg.loop := by
  simp only [Cfg.loop, C15_cfg_leavesOnEventsDisconnect]; exact C15_quiet_without_sender _

/-! ## No accumulation -/

/-- the threads still alive after each of them ran one iteration -/
def alive (lc : LoopCfg) (pick : Bool) (ts : List LoopSt) : List LoopSt :=
  ts.filterMap fun s => match iter lc pick s with
    | .exit => none | .blocked => some s | .continue_ s' => some s'

/-- **C15_no_accumulation.** After any number of create/drop rounds (any number of reloader threads
whose caches are gone), one iteration later none of them runs — whatever they had queued. -/
theorem C15_no_accumulation (ee : Bool) (pick : Bool) (ts : List LoopSt) (h : ∀ s ∈ ts, s.msgConn = false) :
    alive ⟨true, ee⟩ pick ts = [] := by
  induction ts with
  | nil => rfl
  | cons s ts ih =>
    have hs := C15_stops_after_drop ee pick s (h s (by simp))
    simp only [alive, List.filterMap_cons, hs]
    exact ih (fun x hx => h x (List.mem_cons_of_mem _ hx))

example : alive ⟨true, true⟩ false [⟨1, 0, false, true⟩, ⟨0, 4, false, false⟩, ⟨0, 0, false, true⟩] = [] := by decide

/-- In the defective loop every dropped cache whose source keeps an event sender leaves a spinning thread behind. -/
theorem C15_accumulates_in_defective_loop (ee : Bool) (pick : Bool) (ts : List LoopSt)
    (h : ∀ s ∈ ts, s.msgConn = false ∧ s.evConn = true) : (alive ⟨false, ee⟩ pick ts).length = ts.length := by
  induction ts with
  | nil => rfl
  | cons s ts ih =>
    obtain ⟨s', hs, _⟩ := C15_spins ee pick s (h s (by simp)).1 (h s (by simp)).2
    simp only [alive, List.filterMap_cons, hs, List.length_cons]
    have := ih (fun x hx => h x (List.mem_cons_of_mem _ hx))
    simp only [alive] at this
    omega

/-! ## What the observer is predicted to see (the function the driver evaluates) -/

theorem C15_verdict_exited (ee : Bool) (s : LoopSt) (h : s.msgConn = false) : verdict ⟨true, ee⟩ s = .exited := by
  simp [verdict, verdictFuel, C15_stops_after_drop ee false s h]

theorem verdictFuel_spinning (ee : Bool) (f : Nat) : ∀ (p : Bool) (s : LoopSt), s.msgConn = false → s.evConn = true →
    verdictFuel ⟨false, ee⟩ f p s = .spinning := by
  induction f with
  | zero => intro p s _ _; rfl
  | succ f ih =>
    intro p s h1 h2
    obtain ⟨s', hs, c1, c2, _, _⟩ := C15_spins ee p s h1 h2
    simp only [verdictFuel, hs]
    exact ih (!p) s' c1 c2

theorem C15_verdict_spinning (ee : Bool) (s : LoopSt) (h1 : s.msgConn = false) (h2 : s.evConn = true) : verdict ⟨false, ee⟩ s = .spinning :=
  verdictFuel_spinning ee _ false s h1 h2

theorem C15_verdict_asleep (lc : LoopCfg) (s : LoopSt) (h1 : s.msgConn = true) (h2 : s.evConn = true)
    (h3 : s.msgQ = 0) (h4 : s.evQ = 0) : verdict lc s = .asleep := by
  simp [verdict, verdictFuel, C15_idle_blocks lc false s h1 h2 h3 h4]

/-! ## At today's source -/

/-- **C15 (full strength, today's source).** -/
theorem C15_stops_after_drop_today : C15_stops_after_drop_stmt genCfg.loop := by
  simp only [Cfg.loop, C15_cfg_leavesOnDisconnect]; exact C15_stops_after_drop _

theorem C15_no_accumulation_today (pick : Bool) (ts : List LoopSt) (h : ∀ s ∈ ts, s.msgConn = false) :
    alive genCfg.loop pick ts = [] := by
  simp only [Cfg.loop, C15_cfg_leavesOnDisconnect]; exact C15_no_accumulation _ pick ts h

end AmVerif.Props.C15
