import AmVerif.Lemmas.Source
import AmVerif.Gen.Archive
/-!
# C04 — every source shows the same tree: FileSystem, Zip, Tar, Embedded

`sem t` is the specification view of a tree. Each source model (`Model/Source.lean`, the very
definitions the driver `amdrv` executes) is compared with it by `ViewEq`: `read` equal, `read_dir`
equal up to the order of the listing, `exists` equal.

The full-strength statements for archives and for the file system are **false of the current
source** (findings F-C04, empty-archive root, FileSystem kind confusion): they are kept as
`*_stmt`, refuted with concrete witnesses, and proved under executable extra hypotheses
(`*_partial`).
-/
namespace AmVerif.Props.C04
open AmVerif.Model.Source AmVerif.Model.ArchiveSkel AmVerif.Lemmas.Source AmVerif.Gen.Archive

/-- Listings are compared as multisets; errors must be the same error. -/
def ResPerm : Res (List Entry) → Res (List Entry) → Prop
  | .ok a, .ok b => a.Perm b
  | .err e, .err e' => e = e'
  | _, _ => False

structure ViewEq (v w : View) : Prop where
  read : ∀ id ext, v.read id ext = w.read id ext
  readDir : ∀ p, ResPerm (v.readDir p) (w.readDir p)
  exist : ∀ e, v.exist e = w.exist e

theorem ResPerm.symm {a b} (h : ResPerm a b) : ResPerm b a := by
  cases a <;> cases b <;> simp_all [ResPerm]
  · exact h.symm

theorem ResPerm.trans {a b c} (h : ResPerm a b) (h' : ResPerm b c) : ResPerm a c := by
  cases a <;> cases b <;> cases c <;> simp_all [ResPerm]
  · exact h.trans h'

theorem ViewEq.symm {v w} (h : ViewEq v w) : ViewEq w v :=
  ⟨fun i e => (h.read i e).symm, fun p => (h.readDir p).symm, fun e => (h.exist e).symm⟩

theorem ViewEq.trans {u v w} (h : ViewEq u v) (h' : ViewEq v w) : ViewEq u w :=
  ⟨fun i e => (h.read i e).trans (h'.read i e), fun p => (h.readDir p).trans (h'.readDir p),
   fun e => (h.exist e).trans (h'.exist e)⟩

/-! ## tie to the source: the extracted skeletons -/

/-- `register_file` of zip.rs and of tar.rs have the same effect skeleton (they differ only in the
container API), and it is the one the model interprets: builder reset, component walk
(push / pop / skip / refuse), parent id, stem, id; files: extension, `FileDesc(id, ext)`,
`files.insert`; directories: `dirs.insert(id, [])` **guarded by `contains_key`**; then the push
into the parent's listing. -/
theorem C04_register_skeleton : zipRegister = registerSkel ∧ tarRegister = registerSkel := by decide

/-- Each `read` of an archive works on its own clone of the reader (no shared file offset). -/
theorem C04_reads_use_own_reader : zipReadClonesReader = true ∧ tarReadClonesReader = true := by decide

/-! ## archives -/

/-- Full strength: every archive of a valid tree shows that tree. -/
def C04_archive_stmt : Prop :=
  ∀ t ms, ValidTree t → Archives t ms → ViewEq (viewOfIdx (index ms)) (sem t)

/-- The tree `d/e/f.x`. -/
def witnessTree : Tree :=
  { files := [{ dir := [['d'], ['e']], stem := ['f'], ext := ['x'], bytes := [] }], dirs := [[['d']], [['d'], ['e']]] }
/-- Its archive without directory members. -/
def witnessArchive : List Member := [{ abs := false, comps := [['d'], ['e'], ['f', '.', 'x']], isFile := true, bytes := [] }]

/-- F-C04: an archive whose only member is `d/e/f.x` does not know the directory `d`. -/
theorem C04_archive_refuted : ¬ C04_archive_stmt := by
  intro h
  have hv : ValidTree witnessTree := by decide
  have ha : Archives witnessTree witnessArchive := by decide
  have := (h witnessTree witnessArchive hv ha).exist (.dir ['d'])
  revert this
  decide

/-- Second witness: the empty tree and its empty archive — the root itself is unknown. -/
theorem C04_archive_refuted_empty : ¬ C04_archive_stmt := by
  intro h
  have := (h ⟨[], []⟩ [] (by decide) (by decide)).exist (.dir [])
  revert this
  decide

theorem any_eq_find_isSome {α} (l : List α) (p : α → Bool) : l.any p = (l.find? p).isSome := by
  induction l with
  | nil => rfl
  | cons x xs ih => by_cases h : p x <;> simp [List.find?_cons, h, ih]

/-- (key, content) pairs of the tree's files. -/
def treeKVs (t : Tree) : List ((Id × Name) × Bytes) := t.files.map fun f => ((fileId f, f.ext), f.bytes)

theorem fileKVs_regsOfTree (t : Tree) : fileKVs (regsOfTree t) = treeKVs t := by
  simp [fileKVs, regsOfTree, List.filterMap_append, List.filterMap_map, treeKVs, Reg.kv, fileReg, dirReg,
    Function.comp_def]

theorem sem_read_eq (t : Tree) (id : Id) (ext : Name) :
    (sem t).read id ext =
      match ((treeKVs t).find? (fun kv => decide (kv.1 = (id, ext)))).map (·.2) with
      | some b => .ok b
      | none => .err .notFound := by
  simp only [sem, treeKVs, List.find?_map, Function.comp_def, Prod.mk.injEq, Option.map_map]
  cases t.files.find? (fun f => decide (fileId f = id ∧ f.ext = ext)) <;> rfl

theorem sem_exist_file_eq (t : Tree) (id : Id) (ext : Name) :
    (sem t).exist (.file id ext) =
      (((treeKVs t).find? (fun kv => decide (kv.1 = (id, ext)))).map (·.2)).isSome := by
  simp only [sem, treeKVs, List.find?_map, Function.comp_def, Prod.mk.injEq, Option.map_map, any_eq_find_isSome,
    Option.isSome_map]

/-- Any list of (key, content) pairs that is a permutation of the tree's answers lookups like it. -/
theorem lookup_of_perm (t : Tree) (hn : ((treeKVs t).map (·.1)).Nodup) (L : List ((Id × Name) × Bytes))
    (hL : L.Perm (treeKVs t)) (k : Id × Name) :
    (L.find? (fun kv => decide (kv.1 = k))).map (·.2) = ((treeKVs t).find? (fun kv => decide (kv.1 = k))).map (·.2) := by
  have hnL : (L.map (·.1)).Nodup := (hL.map _).nodup_iff.mpr hn
  apply Option.ext
  intro b
  rw [find_key_iff L hnL, find_key_iff _ hn, hL.mem_iff]

theorem validTree_keys (t : Tree) (hv : ValidTree t) : ((treeKVs t).map (·.1)).Nodup := by
  have := hv.2.2.1
  simpa [treeKVs, List.map_map, Function.comp_def] using this

theorem joinDot_nil : joinDot [] = [] := rfl

/-- In a non-empty valid tree some entry lies directly in the root. -/
theorem exists_top (t : Tree) (hv : ValidTree t) (hne : t.isEmpty = false) :
    ∃ r ∈ regsOfTree t, r.parent = [] := by
  have hdirs : ∀ n, ∀ q ∈ t.dirs, q.length ≤ n → ∃ r ∈ regsOfTree t, r.parent = [] := by
    intro n
    induction n with
    | zero =>
      intro q hq hl
      have : q = [] := List.length_eq_zero_iff.mp (Nat.le_zero.mp hl)
      exact absurd this (hv.2.1 q hq).1
    | succ n ih =>
      intro q hq hl
      rcases (hv.2.1 q hq).2.2 with h | h
      · exact ⟨dirReg q, by simp [regsOfTree]; exact Or.inr ⟨q, hq, rfl⟩, by simp [dirReg, h, dirId, joinDot]⟩
      · apply ih q.dropLast h
        have : q ≠ [] := (hv.2.1 q hq).1
        have := List.length_dropLast (xs := q)
        cases q with
        | nil => simp_all
        | cons a as => simp at hl ⊢; omega
  cases hd : t.dirs with
  | cons q qs => exact hdirs q.length q (by simp [hd]) (Nat.le_refl _)
  | nil =>
    cases hf : t.files with
    | nil => simp [Tree.isEmpty, hd, hf] at hne
    | cons f fs =>
      have hfm : f ∈ t.files := by simp [hf]
      rcases (hv.1 f hfm).2.2.2 with h | h
      · exact ⟨fileReg f, by simp [regsOfTree]; exact Or.inl ⟨f, hfm, rfl⟩, by simp [fileReg, h, dirId, joinDot]⟩
      · simp [hd] at h

theorem mentioned_perm {a b : List Reg} (h : a.Perm b) (p : Id) : mentioned a p = mentioned b p := by
  unfold mentioned
  rw [Bool.eq_iff_iff]
  simp only [List.any_eq_true]
  constructor
  · rintro ⟨r, hr, hp⟩; exact ⟨r, h.mem_iff.mp hr, hp⟩
  · rintro ⟨r, hr, hp⟩; exact ⟨r, h.mem_iff.mpr hr, hp⟩

/-- With a member for every directory (and a non-empty tree) the known directories are exactly
the tree's. -/
theorem mentioned_regs (t : Tree) (hv : ValidTree t) (hne : t.isEmpty = false) (p : Id) :
    mentioned (regsOfTree t) p = isDirId t p := by
  rw [Bool.eq_iff_iff]
  simp only [mentioned, List.any_eq_true, isDirId, Bool.or_eq_true, decide_eq_true_eq, Bool.and_eq_true,
    Option.isNone_iff_eq_none, List.mem_map]
  constructor
  · rintro ⟨r, hr, hp⟩
    simp only [regsOfTree, List.mem_append, List.mem_map] at hr
    rcases hr with ⟨f, hf, rfl⟩ | ⟨q, hq, rfl⟩
    · rcases hp with hp | hp
      · rcases (hv.1 f hf).2.2.2 with h | h
        · left; simpa [fileReg, h, dirId, joinDot] using hp.symm
        · right; exact ⟨f.dir, h, by simpa [fileReg] using hp⟩
      · simp [fileReg] at hp
    · rcases hp with hp | hp
      · rcases (hv.2.1 q hq).2.2 with h | h
        · left; simpa [dirReg, h, dirId, joinDot] using hp.symm
        · right; exact ⟨q.dropLast, h, by simpa [dirReg] using hp⟩
      · right; exact ⟨q, hq, by simpa [dirReg] using hp.2⟩
  · rintro (hp | ⟨q, hq, hp⟩)
    · obtain ⟨r, hr, hpar⟩ := exists_top t hv hne
      exact ⟨r, hr, Or.inl (by rw [hpar, hp])⟩
    · exact ⟨dirReg q, by simp [regsOfTree]; exact Or.inr ⟨q, hq, rfl⟩, Or.inr ⟨by simp [dirReg], by simpa [dirReg] using hp⟩⟩

theorem parseCore_dir_bytes (q : List Name) (b : Bytes) : parseCore q false b = parseCore q false [] := by
  simp [parseCore]

/-- The registrations of an archive with a member for every directory are, up to order, the
tree's entries. -/
theorem regs_perm (t : Tree) (ms : List Member) (hv : ValidTree t) (ha : Archives t ms) (hd : DirsHaveMembers t ms) :
    (ms.filterMap parseMember).Perm (regsOfTree t) := by
  obtain ⟨habs, hfiles, hnd, hsub⟩ := ha
  have hsplit := (List.filter_append_perm (fun m : Member => m.isFile) ms).symm
  refine (hsplit.filterMap parseMember).trans ?_
  rw [List.filterMap_append]
  apply List.Perm.append
  · -- files
    have h1 : (ms.filter (·.isFile)).filterMap parseMember =
        ((ms.filter (·.isFile)).map fun m => (m.norm, m.bytes)).filterMap (fun cb => parseCore cb.1 true cb.2) := by
      rw [List.filterMap_map]
      apply filterMap_congr'
      intro m hm
      have hm' := List.mem_filter.mp hm
      simp [parseMember, habs m hm'.1, Member.norm, hm'.2]
    rw [h1]
    refine (hfiles.filterMap _).trans ?_
    rw [List.filterMap_map]
    have : t.files.filterMap ((fun cb : List Name × Bytes => parseCore cb.1 true cb.2) ∘ fun f => (filePath f, f.bytes)) =
        t.files.map fileReg := by
      rw [← List.filterMap_eq_map]
      apply filterMap_congr'
      intro f hf
      have := hv.1 f hf
      simp [parseCore_file f f.bytes ⟨this.1, this.2.1, this.2.2.1⟩, fileReg]
    rw [this]
  · -- directories
    have h1 : (ms.filter (fun m => !m.isFile)).filterMap parseMember =
        ((ms.filter (fun m => !m.isFile)).map Member.norm).filterMap (fun q => parseCore q false []) := by
      rw [List.filterMap_map]
      apply filterMap_congr'
      intro m hm
      have hm' := List.mem_filter.mp hm
      have hf : m.isFile = false := by simpa using hm'.2
      simp [parseMember, habs m hm'.1, Member.norm, hf, parseCore_dir_bytes _ m.bytes]
    rw [h1]
    have hdn : t.dirs.Nodup := nodup_of_map _ _ hv.2.2.2.1
    have hperm : ((ms.filter (fun m => !m.isFile)).map Member.norm).Perm t.dirs := by
      rw [List.perm_ext_iff_of_nodup hnd hdn]
      intro q
      constructor
      · intro hq
        obtain ⟨m, hm, rfl⟩ := List.mem_map.mp hq
        have hm' := List.mem_filter.mp hm
        exact hsub m hm'.1 (by simpa using hm'.2)
      · intro hq
        obtain ⟨m, hm, hf, rfl⟩ := hd q hq
        exact List.mem_map.mpr ⟨m, List.mem_filter.mpr ⟨hm, by simp [hf]⟩, rfl⟩
    refine (hperm.filterMap _).trans ?_
    have : t.dirs.filterMap (fun q => parseCore q false []) = t.dirs.map dirReg := by
      rw [← List.filterMap_eq_map]
      apply filterMap_congr'
      intro q hq
      have := hv.2.1 q hq
      simp [parseCore_dir q [] ⟨this.1, this.2.1⟩]
    rw [this]

/-- The view of an index built (most recent first) from any permutation of the tree's entries. -/
theorem view_of_regs (t : Tree) (hv : ValidTree t) (hne : t.isEmpty = false) (rv : List Reg)
    (hp : rv.Perm (regsOfTree t)) : ViewEq (viewOfIdx (indexR rv)) (sem t) := by
  have hkv : (fileKVs rv).Perm (treeKVs t) := by
    rw [← fileKVs_regsOfTree]; exact hp.filterMap _
  have hfiles : ∀ k, (indexR rv).files k =
      ((treeKVs t).find? (fun kv => decide (kv.1 = k))).map (·.2) := by
    intro k
    rw [indexR_files, lookup_of_perm t (validTree_keys t hv) _ hkv]
  have hdirs : ∀ p, (indexR rv).dirs p =
      if isDirId t p then some (rv.filterMap (childEntry p)).reverse else none := by
    intro p
    rw [indexR_dirs, mentioned_perm hp, mentioned_regs t hv hne]
  constructor
  · intro id ext
    rw [sem_read_eq]
    show (match (indexR rv).files (id, ext) with | some b => Res.ok b | none => Res.err Err.notFound) = _
    rw [hfiles]
  · intro p
    simp only [viewOfIdx, hdirs, sem]
    by_cases h : isDirId t p
    · simp only [h, if_true, ResPerm]
      exact (List.reverse_perm _).trans (hp.filterMap _)
    · simp [h, ResPerm]
  · intro e
    cases e with
    | file id ext => rw [sem_exist_file_eq]; simp only [viewOfIdx, hfiles]
    | dir p =>
      simp only [viewOfIdx, hdirs, sem]
      by_cases h : isDirId t p <;> simp [h]

/-- **Archives, under the hypothesis that carves out the findings**: if every directory of the
tree has its own member and the tree is not empty, a zip / tar archive of a valid tree — members
in any order, with or without `./` — shows exactly that tree. -/
theorem C04_archive_partial (t : Tree) (ms : List Member) (hv : ValidTree t) (ha : Archives t ms)
    (hd : DirsHaveMembers t ms) (hne : t.isEmpty = false) :
    ViewEq (viewOfIdx (index ms)) (sem t) := by
  rw [index_eq]
  exact view_of_regs t hv hne _ ((List.reverse_perm _).trans (regs_perm t ms hv ha hd))

example : ValidTree witnessTree ∧ Archives witnessTree
    (witnessArchive ++ [⟨false, [['.'], ['d'], ['e']], false, []⟩, ⟨false, [['d']], false, []⟩]) ∧
    DirsHaveMembers witnessTree (witnessArchive ++ [⟨false, [['.'], ['d'], ['e']], false, []⟩, ⟨false, [['d']], false, []⟩]) ∧
    witnessTree.isEmpty = false := by decide

theorem archives_perm {t : Tree} {a b : List Member} (h : a.Perm b) (ha : Archives t a) : Archives t b := by
  obtain ⟨h1, h2, h3, h4⟩ := ha
  refine ⟨fun m hm => h1 m (h.mem_iff.mpr hm), ?_, ?_, fun m hm => h4 m (h.mem_iff.mpr hm)⟩
  · exact (((h.filter _).map _).symm).trans h2
  · exact (((h.filter _).map _).nodup_iff).mp h3

/-- The order of the members is irrelevant (in particular a directory member may come after the
files it contains: the `contains_key` guard keeps the listing). -/
theorem C04_archive_order_irrelevant (t : Tree) (ms ms' : List Member) (hperm : ms.Perm ms') (hv : ValidTree t)
    (ha : Archives t ms) (hd : DirsHaveMembers t ms) (hne : t.isEmpty = false) :
    ViewEq (viewOfIdx (index ms)) (viewOfIdx (index ms')) := by
  have ha' := archives_perm hperm ha
  have hd' : DirsHaveMembers t ms' := fun q hq => by
    obtain ⟨m, hm, h⟩ := hd q hq
    exact ⟨m, hperm.mem_iff.mp hm, h⟩
  exact (C04_archive_partial t ms hv ha hd hne).trans (C04_archive_partial t ms' hv ha' hd' hne).symm

/-! ## Embedded -/

theorem collectMap_eq {κ β} [DecidableEq κ] (l : List (κ × β)) (k : κ) :
    collectMap l k = (l.reverse.find? (fun kv => decide (kv.1 = k))).map (·.2) := by
  unfold collectMap
  rw [List.foldl_eq_foldr_reverse]
  generalize l.reverse = r
  induction r with
  | nil => rfl
  | cons kv r ih =>
    simp only [List.foldr_cons, upd, List.find?_cons]
    by_cases h : kv.1 = k
    · simp [h]
    · have h' : ¬ k = kv.1 := fun e => h e.symm
      simp [h, h', ih]

theorem find_map_key {γ κ β} [DecidableEq κ] (ks : List γ) (g : γ → κ) (h : κ → β) (p : κ) :
    ((ks.map fun q => (g q, h (g q))).find? (fun kv => decide (kv.1 = p))).map (·.2) =
      if p ∈ ks.map g then some (h p) else none := by
  induction ks with
  | nil => simp
  | cons q qs ih =>
    by_cases hq : g q = p
    · rw [List.map_cons, List.find?_cons_of_pos (by simpa using hq)]
      simp [hq]
    · have hq' : ¬ p = g q := fun e => hq e.symm
      rw [List.map_cons, List.find?_cons_of_neg (by simpa using hq), ih]
      simp only [List.map_cons, List.mem_cons, hq', false_or]

/-- `Embedded::from` over the tables `embed!` generates for a valid tree shows exactly that tree
(listings even in the same order). -/
theorem C04_embedded (t : Tree) (hv : ValidTree t) :
    ViewEq (viewOfIdx (embeddedFrom (embedTables t))) (sem t) := by
  have hfiles : ∀ k, (embeddedFrom (embedTables t)).files k =
      ((treeKVs t).find? (fun kv => decide (kv.1 = k))).map (·.2) := by
    intro k
    show collectMap (treeKVs t) k = _
    rw [collectMap_eq, lookup_of_perm t (validTree_keys t hv) _ (List.reverse_perm _)]
  have hdirs : ∀ p, (embeddedFrom (embedTables t)).dirs p =
      if isDirId t p then some ((regsOfTree t).filterMap (childEntry p)) else none := by
    intro p
    show collectMap (([] :: t.dirs).map fun q => (dirId q, (regsOfTree t).filterMap (childEntry (dirId q)))) p = _
    rw [collectMap_eq, ← List.map_reverse,
      find_map_key _ dirId (fun i => (regsOfTree t).filterMap (childEntry i)) p]
    have : (p ∈ ([] :: t.dirs).reverse.map dirId) ↔ isDirId t p = true := by
      simp only [List.mem_map, List.mem_reverse, List.mem_cons, isDirId, Bool.or_eq_true, decide_eq_true_eq]
      constructor
      · rintro ⟨q, hq | hq, rfl⟩
        · left; rw [hq]; rfl
        · right; exact ⟨q, hq, rfl⟩
      · rintro (h | ⟨q, hq, rfl⟩)
        · exact ⟨[], Or.inl rfl, by rw [h]; rfl⟩
        · exact ⟨q, Or.inr hq, rfl⟩
    by_cases hd : isDirId t p = true
    · rw [if_pos (this.mpr hd), if_pos hd]
    · rw [if_neg (fun h => hd (this.mp h)), if_neg hd]
  constructor
  · intro id ext
    rw [sem_read_eq]
    show (match (embeddedFrom (embedTables t)).files (id, ext) with | some b => Res.ok b | none => Res.err Err.notFound) = _
    rw [hfiles]
  · intro p
    simp only [viewOfIdx, hdirs, sem]
    by_cases h : isDirId t p
    · simp only [h, if_true, ResPerm]; exact List.Perm.refl _
    · simp [h, ResPerm]
  · intro e
    cases e with
    | file id ext => rw [sem_exist_file_eq]; simp only [viewOfIdx, hfiles]
    | dir p =>
      simp only [viewOfIdx, hdirs, sem]
      by_cases h : isDirId t p <;> simp [h]

example : ValidTree witnessTree := by decide

/-! ## every listed entry is readable under the id it was listed with -/

/-- What "readable" means for a listed entry: a file can be read and exists, a directory can be
listed and exists. -/
def Readable (v : View) : Entry → Prop
  | .file id ext => (v.read id ext).isOk = true ∧ v.exist (.file id ext) = true
  | .dir id => (v.readDir id).isOk = true ∧ v.exist (.dir id) = true

theorem sem_listed_readable (t : Tree) (p : Id) (es : List Entry) (h : (sem t).readDir p = .ok es) :
    ∀ e ∈ es, Readable (sem t) e := by
  intro e he
  simp only [sem] at h
  by_cases hp : isDirId t p
  · simp only [hp, if_true, Res.ok.injEq] at h
    subst h
    obtain ⟨r, hr, hre⟩ := List.mem_filterMap.mp he
    simp only [childEntry] at hre
    by_cases hpar : r.parent = p
    · simp only [hpar, if_true, Option.some.injEq] at hre
      subst hre
      simp only [regsOfTree, List.mem_append, List.mem_map] at hr
      rcases hr with ⟨f, hf, rfl⟩ | ⟨q, hq, rfl⟩
      · have hany : t.files.any (fun g => decide (fileId g = fileId f ∧ g.ext = f.ext)) = true :=
          List.any_eq_true.mpr ⟨f, hf, by simp⟩
        simp only [Readable, Reg.entry, fileReg, sem]
        refine ⟨?_, hany⟩
        cases hfind : t.files.find? (fun g => decide (fileId g = fileId f ∧ g.ext = f.ext)) with
        | none => rw [any_eq_find_isSome, hfind] at hany; simp at hany
        | some g => rfl
      · have hd : isDirId t (dirId q) = true := by
          simp only [isDirId, Bool.or_eq_true, decide_eq_true_eq]
          exact Or.inr (List.mem_map.mpr ⟨q, hq, rfl⟩)
        simp [Readable, Reg.entry, dirReg, sem, hd, Res.isOk]
    · simp [hpar] at hre
  · simp [hp] at h

/-- For every source view that shows the tree (each of the theorems above provides one), every
entry produced by `read_dir` is readable / listable under the id it was listed with. -/
theorem C04_listed_is_readable (v : View) (t : Tree) (hv : ViewEq v (sem t)) (p : Id) (es : List Entry)
    (h : v.readDir p = .ok es) : ∀ e ∈ es, Readable v e := by
  intro e he
  have hp := hv.readDir p
  rw [h] at hp
  cases hs : (sem t).readDir p with
  | err x => simp [hs, ResPerm] at hp
  | ok es' =>
    rw [hs] at hp
    have he' : e ∈ es' := (show es.Perm es' from hp).mem_iff.mp he
    have := sem_listed_readable t p es' hs e he'
    cases e with
    | file id ext => simpa [Readable, hv.read, hv.exist] using this
    | dir id =>
      simp only [Readable, hv.exist] at this ⊢
      refine ⟨?_, this.2⟩
      have hd := hv.readDir id
      cases hvd : v.readDir id with
      | ok _ => rfl
      | err x =>
        rw [hvd] at hd
        cases hsd : (sem t).readDir id with
        | ok _ => simp [hsd, ResPerm] at hd
        | err y => simp [hsd, Res.isOk] at this

/-! ## readers do not disturb each other -/

inductive Probe
  | read (id : Id) (ext : Name)
  | readDir (id : Id)
  | exist (e : Entry)

inductive Answer
  | bytes (r : Res Bytes)
  | listing (r : Res (List Entry))
  | bool (b : Bool)

def answer (v : View) : Probe → Answer
  | .read id ext => .bytes (v.read id ext)
  | .readDir id => .listing (v.readDir id)
  | .exist e => .bool (v.exist e)

/-- Several reader threads over one index: a step answers the thread's next probe from the shared
index (the code only takes `&self`: no step writes to it). -/
structure Readers where
  idx : Idx
  progs : Nat → List Probe
  done : Nat → List Answer

def Readers.step (s : Readers) (tid : Nat) : Readers :=
  match s.progs tid with
  | [] => s
  | p :: ps => { s with progs := upd s.progs tid ps, done := upd s.done tid (s.done tid ++ [answer (viewOfIdx s.idx) p]) }

def Readers.run (s : Readers) (σ : List Nat) : Readers := σ.foldl Readers.step s

/-- Whatever the schedule and the number of reader threads, the index is unchanged and every
thread has received exactly the answers a lone reader would get, in program order. -/
theorem C04_reads_commute (s₀ : Readers) (σ : List Nat) :
    (s₀.run σ).idx = s₀.idx ∧
    ∀ t, (s₀.run σ).done t ++ ((s₀.run σ).progs t).map (answer (viewOfIdx s₀.idx)) =
         s₀.done t ++ (s₀.progs t).map (answer (viewOfIdx s₀.idx)) := by
  induction σ generalizing s₀ with
  | nil => exact ⟨rfl, fun _ => rfl⟩
  | cons tid σ ih =>
    have hstep : (s₀.step tid).idx = s₀.idx ∧
        ∀ t, (s₀.step tid).done t ++ ((s₀.step tid).progs t).map (answer (viewOfIdx s₀.idx)) =
             s₀.done t ++ (s₀.progs t).map (answer (viewOfIdx s₀.idx)) := by
      unfold Readers.step
      cases hp : s₀.progs tid with
      | nil => exact ⟨rfl, fun _ => rfl⟩
      | cons p ps =>
        refine ⟨rfl, fun t => ?_⟩
        by_cases ht : t = tid
        · subst ht; simp [upd, hp]
        · simp [upd, ht]
    obtain ⟨h1, h2⟩ := ih (s₀.step tid)
    refine ⟨h1.trans hstep.1, fun t => ?_⟩
    have := h2 t
    rw [hstep.1] at this
    exact this.trans (hstep.2 t)

example : ((Readers.mk (index witnessArchive) (fun _ => [.exist (.dir ['d', '.', 'e']), .read ['d', '.', 'e', '.', 'f'] ['x']]) (fun _ => [])).run
    [0, 1, 1, 0]).progs 0 = [] := by decide

/-! ## FileSystem -/

/-- Full strength: the file-system view of a valid tree is the specification view. -/
def C04_fs_stmt : Prop := ∀ t, ValidTree t → ViewEq (fsView t) (sem t)

/-- **Kind confusion** (`FileSystem::exists` is `Path::exists`): in the tree with the single
directory `d`, `exists(File("d", ""))` is true although no such file exists (and `read("d", "")`
fails with *is a directory* instead of *not found*). -/
theorem C04_fs_refuted : ¬ C04_fs_stmt := by
  intro h
  have := (h ⟨[], [[['d']]]⟩ (by decide)).exist (.file ['d'] [])
  revert this
  decide

theorem C04_fs_refuted_read : (fsView ⟨[], [[['d']]]⟩).read ['d'] [] = .err .isDir ∧
    (sem ⟨[], [[['d']]]⟩).read ['d'] [] = .err .notFound := by decide

theorem comps_of_id (cs : List Name) (hv : ∀ c ∈ cs, ValidName c) :
    (splitDot (joinDot cs)).filter (· ≠ []) = cs := by
  have hfilter : cs.filter (· ≠ []) = cs := by
    apply List.filter_eq_self.mpr
    intro c hc
    simpa using (hv c hc).1
  cases cs with
  | nil => simp [joinDot, splitDot]
  | cons c cs' =>
    rw [split_join _ (by simp) (fun w hw => (hv w hw).2)]
    exact hfilter

/-- Two valid component lists with the same id are equal (id → path is injective). -/
theorem joinDot_inj (a b : List Name) (ha : ∀ c ∈ a, ValidName c) (hb : ∀ c ∈ b, ValidName c)
    (h : joinDot a = joinDot b) : a = b := by
  rw [← comps_of_id a ha, ← comps_of_id b hb, h]

/-- `path_of_entry(File(id, ext))` of a well-formed id is the path of the file `stem.ext` in the
directory named by the other components. -/
theorem pathOfEntry_file (ini : List Name) (l ext : Name) (hi : ∀ c ∈ ini, ValidName c) (hl : ValidName l) :
    pathOfEntry (joinDot (ini ++ [l])) (some ext) = some (filePath ⟨ini, l, ext, []⟩) := by
  have hv : ∀ c ∈ ini ++ [l], ValidName c := by
    intro c hc
    rcases List.mem_append.mp hc with h | h
    · exact hi c h
    · simpa [List.mem_singleton.mp h] using hl
  simp only [pathOfEntry, comps_of_id _ hv, List.getLast?_append, List.getLast?_singleton, List.dropLast_concat]
  simp [setExtension, splitExt_dotfree l hl, filePath, fileName]

theorem filePath_eq_iff (f : FileN) (ini : List Name) (l ext : Name) (hs : ValidName f.stem) (he : ValidExt f.ext)
    (hl : ValidName l) (hx : ValidExt ext) :
    filePath f = filePath ⟨ini, l, ext, []⟩ ↔ f.dir = ini ∧ f.stem = l ∧ f.ext = ext := by
  constructor
  · intro h
    obtain ⟨h1, h2⟩ := List.append_singleton_inj.mp h
    have a := splitExt_fileName f hs he
    have b := splitExt_fileName ⟨ini, l, ext, []⟩ hl hx
    rw [h2] at a
    exact ⟨h1, a.1.symm.trans b.1, a.2.symm.trans b.2⟩
  · rintro ⟨h1, h2, h3⟩
    simp [filePath, fileName, h1, h2, h3]

/-- The path of a file `stem.ext` (non-empty extension) is never a directory of a valid tree. -/
theorem filePath_not_dir (t : Tree) (hv : ValidTree t) (ini : List Name) (l ext : Name) (hne : ext ≠ []) :
    filePath ⟨ini, l, ext, []⟩ ∉ t.dirs := by
  intro h
  have := (hv.2.1 _ h).2.1 (fileName ⟨ini, l, ext, []⟩) (by simp [filePath])
  have hx : ext.isEmpty = false := by cases ext <;> simp_all
  exact this.2 (by simp [fileName, hx])

/-- **FileSystem, outside kind confusion**: for a well-formed file id (valid components) whose
path does not run through an extension-less file, and which is not `(directory id, "")`,
`FileSystem::read` and `exists(File ..)` answer as the specification does. -/
theorem C04_fs_partial (t : Tree) (hv : ValidTree t) (ini : List Name) (l ext : Name)
    (hi : ∀ c ∈ ini, ValidName c) (hl : ValidName l) (hx : ValidExt ext)
    (hthrough : fsResolve t (filePath ⟨ini, l, ext, []⟩) ≠ .notDir)
    (hkind : ¬ (ext = [] ∧ ini ++ [l] ∈ t.dirs)) :
    (fsView t).read (joinDot (ini ++ [l])) ext = (sem t).read (joinDot (ini ++ [l])) ext ∧
    (fsView t).exist (.file (joinDot (ini ++ [l])) ext) = (sem t).exist (.file (joinDot (ini ++ [l])) ext) := by
  have hvcs : ∀ c ∈ ini ++ [l], ValidName c := by
    intro c hc
    rcases List.mem_append.mp hc with h | h
    · exact hi c h
    · simpa [List.mem_singleton.mp h] using hl
  -- the path is not a directory
  have hnd : ¬ (filePath ⟨ini, l, ext, []⟩ = [] ∨ filePath ⟨ini, l, ext, []⟩ ∈ t.dirs) := by
    rintro (h | h)
    · simp [filePath] at h
    · by_cases hext : ext = []
      · apply hkind; refine ⟨hext, ?_⟩; simpa [filePath, fileName, hext] using h
      · exact filePath_not_dir t hv ini l ext hext h
  -- both sides look for the same file
  have hpred : ∀ f ∈ t.files, (decide (filePath f = filePath ⟨ini, l, ext, []⟩)) =
      decide (fileId f = joinDot (ini ++ [l]) ∧ f.ext = ext) := by
    intro f hf
    have hfv := hv.1 f hf
    have hfcs : ∀ c ∈ f.dir ++ [f.stem], ValidName c := by
      intro c hc
      rcases List.mem_append.mp hc with h | h
      · exact hfv.1 c h
      · simpa [List.mem_singleton.mp h] using hfv.2.1
    rw [decide_eq_decide, filePath_eq_iff f ini l ext hfv.2.1 hfv.2.2.1 hl hx]
    constructor
    · rintro ⟨h1, h2, h3⟩; exact ⟨by simp [fileId, h1, h2], h3⟩
    · rintro ⟨h1, h3⟩
      have := List.append_singleton_inj.mp (joinDot_inj _ _ hfcs hvcs h1)
      exact ⟨this.1, this.2, h3⟩
  have hfind : t.files.find? (fun f => decide (filePath f = filePath ⟨ini, l, ext, []⟩)) =
      t.files.find? (fun f => decide (fileId f = joinDot (ini ++ [l]) ∧ f.ext = ext)) :=
    find?_congr' _ _ _ hpred
  have hres : fsResolve t (filePath ⟨ini, l, ext, []⟩) =
      match t.files.find? (fun f => decide (fileId f = joinDot (ini ++ [l]) ∧ f.ext = ext)) with
      | some f => .found (.file f.bytes)
      | none => .absent := by
    unfold fsResolve at hthrough ⊢
    split
    · rename_i h; simp [h] at hthrough
    · simp only [fsNode, hnd, if_false, hfind]
      cases t.files.find? (fun f => decide (fileId f = joinDot (ini ++ [l]) ∧ f.ext = ext)) <;> rfl
  constructor
  · simp only [fsView, pathOfEntry_file ini l ext hi hl, hres, sem]
    cases t.files.find? (fun f => decide (fileId f = joinDot (ini ++ [l]) ∧ f.ext = ext)) <;> rfl
  · simp only [fsView, pathOfEntry_file ini l ext hi hl, hres, sem, any_eq_find_isSome]
    cases t.files.find? (fun f => decide (fileId f = joinDot (ini ++ [l]) ∧ f.ext = ext)) <;> rfl

example : fsResolve witnessTree (filePath ⟨[['d'], ['e']], ['f'], ['x'], []⟩) ≠ .notDir ∧
    ¬ ((['x'] : Name) = [] ∧ [['d'], ['e']] ++ [['f']] ∈ witnessTree.dirs) := by decide

end AmVerif.Props.C04
