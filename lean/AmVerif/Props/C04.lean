import AmVerif.Lemmas.Archive
import AmVerif.Gen.Archive
/-!
# C04 — every source shows the same tree: FileSystem, Zip, Tar, Embedded

`sem t` is the specification view of a tree. Each source model (`Model/Source.lean`, the very
definitions the driver `amdrv` executes) is compared with it by `ViewEq`: `read` equal, `read_dir`
equal up to the order of the listing, `exists` equal.

The full-strength statements for archives and for the file system are **false of the current
source** (findings F-C04, empty-archive root, FileSystem kind confusion): they are kept as
`*_stmt`, refuted with concrete witnesses, and proved under executable extra hypotheses
(`*_partial`).
-/
namespace AmVerif.Props.C04
open AmVerif.Model.Source AmVerif.Model.ArchiveSkel AmVerif.Lemmas.Source AmVerif.Lemmas.Archive AmVerif.Gen.Archive

/-- Listings are compared as multisets; errors must be the same error. -/
def ResPerm : Res (List Entry) → Res (List Entry) → Prop
  | .ok a, .ok b => a.Perm b
  | .err e, .err e' => e = e'
  | _, _ => False

structure ViewEq (v w : View) : Prop where
  read : ∀ id ext, v.read id ext = w.read id ext
  readDir : ∀ p, ResPerm (v.readDir p) (w.readDir p)
  exist : ∀ e, v.exist e = w.exist e

theorem ResPerm.symm {a b} (h : ResPerm a b) : ResPerm b a := by
  cases a <;> cases b <;> simp_all [ResPerm]
  · exact h.symm

theorem ResPerm.trans {a b c} (h : ResPerm a b) (h' : ResPerm b c) : ResPerm a c := by
  cases a <;> cases b <;> cases c <;> simp_all [ResPerm]
  · exact h.trans h'

theorem ViewEq.symm {v w} (h : ViewEq v w) : ViewEq w v :=
  ⟨fun i e => (h.read i e).symm, fun p => (h.readDir p).symm, fun e => (h.exist e).symm⟩

theorem ViewEq.trans {u v w} (h : ViewEq u v) (h' : ViewEq v w) : ViewEq u w :=
  ⟨fun i e => (h.read i e).trans (h'.read i e), fun p => (h.readDir p).trans (h'.readDir p),
   fun e => (h.exist e).trans (h'.exist e)⟩

/-! ## tie to the source: the extracted skeletons -/

/-- `register_file` of zip.rs and of tar.rs have the same effect skeleton (they differ only in the
container API), and it is the one the model interprets: builder reset, component walk
(push / pop / skip / refuse), parent id, stem, id; files: extension, `FileDesc(id, ext)`,
`files.insert`, **`register_dir(parent)`**, push into the parent's listing; directories:
**`register_dir(id)`**. `register_dir` is the same in both files too: return if the directory is
known, insert an empty listing, and — unless it is the root — register the parent and push the
directory into the parent's listing. Both `create` functions register the root directory before
any member. -/
theorem C04_register_skeleton :
    zipRegister = registerSkel ∧ tarRegister = registerSkel ∧
    zipRegisterDir = registerDirSkel ∧ tarRegisterDir = registerDirSkel ∧
    zipCreateRegistersRoot = true ∧ tarCreateRegistersRoot = true := by decide

/-- Each `read` of an archive works on its own clone of the reader (no shared file offset). -/
theorem C04_reads_use_own_reader : zipReadClonesReader = true ∧ tarReadClonesReader = true := by decide

/-- `FileSystem::exists` tests the kind of the entry, `read` / `read_dir` report an entry of the
wrong kind as not found: the kind tests of the model `fsView` are those of the source. -/
theorem C04_fs_kind_tests :
    (⟨fsExistsChecksKind, fsReadNonFileNotFound, fsReadDirNonDirNotFound⟩ : FsCfg) = fsCfg := by decide

/-! ## archives -/

/-- Full strength: every archive of a valid tree shows that tree. -/
def C04_archive_stmt : Prop :=
  ∀ t ms, ValidTree t → Archives t ms → ViewEq (viewOfIdx (index ms)) (sem t)

/-- The tree `d/e/f.x`. -/
def witnessTree : Tree :=
  { files := [{ dir := [['d'], ['e']], stem := ['f'], ext := ['x'], bytes := [] }], dirs := [[['d']], [['d'], ['e']]] }
/-- Its archive without directory members (the witness of F-C04 before the repair). -/
def witnessArchive : List Member := [{ abs := false, comps := [['d'], ['e'], ['f', '.', 'x']], isFile := true, bytes := [] }]

theorem any_eq_find_isSome {α} (l : List α) (p : α → Bool) : l.any p = (l.find? p).isSome := by
  induction l with
  | nil => rfl
  | cons x xs ih => by_cases h : p x <;> simp [List.find?_cons, h, ih]

/-- (key, content) pairs of the tree's files. -/
def treeKVs (t : Tree) : List ((Id × Name) × Bytes) := t.files.map fun f => ((fileId f, f.ext), f.bytes)

theorem sem_read_eq (t : Tree) (id : Id) (ext : Name) :
    (sem t).read id ext =
      match ((treeKVs t).find? (fun kv => decide (kv.1 = (id, ext)))).map (·.2) with
      | some b => .ok b
      | none => .err .notFound := by
  simp only [sem, treeKVs, List.find?_map, Function.comp_def, Prod.mk.injEq, Option.map_map]
  cases t.files.find? (fun f => decide (fileId f = id ∧ f.ext = ext)) <;> rfl

theorem sem_exist_file_eq (t : Tree) (id : Id) (ext : Name) :
    (sem t).exist (.file id ext) =
      (((treeKVs t).find? (fun kv => decide (kv.1 = (id, ext)))).map (·.2)).isSome := by
  simp only [sem, treeKVs, List.find?_map, Function.comp_def, Prod.mk.injEq, Option.map_map, any_eq_find_isSome,
    Option.isSome_map]

/-- Any list of (key, content) pairs that is a permutation of the tree's answers lookups like it. -/
theorem lookup_of_perm (t : Tree) (hn : ((treeKVs t).map (·.1)).Nodup) (L : List ((Id × Name) × Bytes))
    (hL : L.Perm (treeKVs t)) (k : Id × Name) :
    (L.find? (fun kv => decide (kv.1 = k))).map (·.2) = ((treeKVs t).find? (fun kv => decide (kv.1 = k))).map (·.2) := by
  have hnL : (L.map (·.1)).Nodup := (hL.map _).nodup_iff.mpr hn
  apply Option.ext
  intro b
  rw [find_key_iff L hnL, find_key_iff _ hn, hL.mem_iff]

theorem validTree_keys (t : Tree) (hv : ValidTree t) : ((treeKVs t).map (·.1)).Nodup := by
  have := hv.2.2.1
  simpa [treeKVs, List.map_map, Function.comp_def] using this

theorem parseCore_dir_bytes (q : List Name) (b : Bytes) : parseCore q false b = parseCore q false [] := by
  simp [parseCore]

/-- The directories that have a member of their own. -/
def dirMembers (ms : List Member) : List (List Name) := (ms.filter (fun m => !m.isFile)).map Member.norm

/-- The registrations of an archive are, up to order, the tree's files and the directories that
have a member. -/
theorem regs_perm (t : Tree) (ms : List Member) (hv : ValidTree t) (ha : Archives t ms) :
    (ms.filterMap parseMember).Perm (t.files.map fileReg ++ (dirMembers ms).map dirReg) := by
  obtain ⟨habs, hfiles, _, hsub, _⟩ := ha
  have hsplit := (List.filter_append_perm (fun m : Member => m.isFile) ms).symm
  refine (hsplit.filterMap parseMember).trans ?_
  rw [List.filterMap_append]
  apply List.Perm.append
  · -- files
    have h1 : (ms.filter (·.isFile)).filterMap parseMember =
        ((ms.filter (·.isFile)).map fun m => (m.norm, m.bytes)).filterMap (fun cb => parseCore cb.1 true cb.2) := by
      rw [List.filterMap_map]
      apply filterMap_congr'
      intro m hm
      have hm' := List.mem_filter.mp hm
      simp [parseMember, habs m hm'.1, Member.norm, hm'.2]
    rw [h1]
    refine (hfiles.filterMap _).trans ?_
    rw [List.filterMap_map]
    have : t.files.filterMap ((fun cb : List Name × Bytes => parseCore cb.1 true cb.2) ∘ fun f => (filePath f, f.bytes)) =
        t.files.map fileReg := by
      rw [← List.filterMap_eq_map]
      apply filterMap_congr'
      intro f hf
      have := hv.1 f hf
      simp [parseCore_file f f.bytes ⟨this.1, this.2.1, this.2.2.1⟩, fileReg]
    rw [this]
  · -- directories
    have h1 : (ms.filter (fun m => !m.isFile)).filterMap parseMember = (dirMembers ms).map dirReg := by
      unfold dirMembers
      rw [List.map_map, ← List.filterMap_eq_map]
      apply filterMap_congr'
      intro m hm
      have hm' := List.mem_filter.mp hm
      have hf : m.isFile = false := by simpa using hm'.2
      have hq := hv.2.1 _ (hsub m hm'.1 hf)
      simp [parseMember, habs m hm'.1, hf, parseCore_dir_bytes _ m.bytes, Member.norm] at hq ⊢
      exact parseCore_dir _ [] ⟨hq.1, hq.2.1⟩
    rw [h1]

theorem fileKVs_files_dirs (t : Tree) (ds : List (List Name)) :
    fileKVs (t.files.map fileReg ++ ds.map dirReg) = treeKVs t := by
  simp [fileKVs, List.filterMap_append, List.filterMap_map, treeKVs, Reg.kv, fileReg, dirReg, Function.comp_def]

/-- If a directory is registered, so are the directories above it. -/
theorem has_prefix {t : Tree} {L : List Reg} {d : DirMap} (I : Inv t L d) (q : List Name) :
    ∀ (n : Nat) (s : List Name), s.length = n → (∀ c ∈ q ++ s, ValidName c) → has d (dirId (q ++ s)) → has d (dirId q) := by
  intro n
  induction n with
  | zero =>
    intro s hs _ h
    have : s = [] := List.length_eq_zero_iff.mp hs
    simpa [this] using h
  | succ n ih =>
    intro s hs hv h
    have hne : s ≠ [] := by intro e; simp [e] at hs
    have hs' : s = s.dropLast ++ [s.getLast hne] := (List.dropLast_concat_getLast hne).symm
    have hq : q ++ s = (q ++ s.dropLast) ++ [s.getLast hne] := by rw [List.append_assoc, ← hs']
    have hne2 : q ++ s ≠ [] := by simp [hne]
    have hup := (I.up _ h (dirId_ne_nil _ hne2 hv)).1
    rw [par_dirId _ hne2 hv, hq, List.dropLast_concat] at hup
    apply ih s.dropLast (by simp [hs]) ?_ hup
    intro c hc
    apply hv c
    rw [hq]; exact List.mem_append_left _ hc

/-- The entries of a valid tree are pairwise different. -/
theorem entries_nodup (t : Tree) (hv : ValidTree t) : ((regsOfTree t).map Reg.entry).Nodup := by
  unfold regsOfTree
  rw [List.map_append, List.map_map, List.map_map]
  apply List.nodup_append.mpr
  refine ⟨?_, ?_, ?_⟩
  · have := hv.2.2.1
    rw [List.Nodup, List.pairwise_map] at this ⊢
    exact this.imp (fun {a b} h e => h (by simpa [fileReg, Reg.entry] using e))
  · have := hv.2.2.2.1
    rw [List.Nodup, List.pairwise_map] at this ⊢
    exact this.imp (fun {a b} h e => h (by simpa [dirReg, Reg.entry] using e))
  · intro a ha b hb
    obtain ⟨f, _, rfl⟩ := List.mem_map.mp ha
    obtain ⟨q, _, rfl⟩ := List.mem_map.mp hb
    simp [fileReg, dirReg, Reg.entry]

theorem filterMap_child_sublist (p : Id) (l : List Reg) : (l.filterMap (childEntry p)).Sublist (l.map Reg.entry) := by
  induction l with
  | nil => exact List.Sublist.slnil
  | cons r rs ih =>
    by_cases h : r.parent = p
    · simp only [List.filterMap_cons, childEntry, h, if_true, List.map_cons]
      exact ih.cons_cons _
    · simp only [List.filterMap_cons, childEntry, h, if_false, List.map_cons]
      exact ih.cons _

theorem mem_spec (t : Tree) (p : Id) (e : Entry) :
    e ∈ (regsOfTree t).filterMap (childEntry p) ↔ ∃ r ∈ regsOfTree t, r.parent = p ∧ r.entry = e := by
  simp only [List.mem_filterMap, childEntry]
  constructor
  · rintro ⟨r, hr, h⟩
    by_cases hp : r.parent = p
    · exact ⟨r, hr, hp, by simpa [hp] using h⟩
    · simp [hp] at h
  · rintro ⟨r, hr, hp, he⟩
    exact ⟨r, hr, by simp [hp, he]⟩

/-- **Archives, full strength.** A zip / tar archive of a valid tree — members in any order, with
or without `./`, directories with or without a member of their own (also after their content),
the empty archive of the empty tree included — shows exactly that tree: `read`, `read_dir` (up to
the order of the listing) and `exists` answer as the specification does. -/
theorem C04_archive : C04_archive_stmt := by
  intro t ms hv ha
  have hperm := regs_perm t ms hv ha
  obtain ⟨_, _, _, hsub, hcover⟩ := ha
  rw [index_eq]
  generalize hrv : (ms.filterMap parseMember).reverse = rv
  have hperm' : rv.Perm (t.files.map fileReg ++ (dirMembers ms).map dirReg) := by
    rw [← hrv]; exact (List.reverse_perm _).trans hperm
  have hds : ∀ q ∈ dirMembers ms, q ∈ t.dirs := by
    intro q hq
    obtain ⟨m, hm, rfl⟩ := List.mem_map.mp hq
    have hm' := List.mem_filter.mp hm
    exact hsub m hm'.1 (by simpa using hm'.2)
  have hsubt : ∀ r ∈ rv, r ∈ regsOfTree t := by
    intro r hr
    rcases List.mem_append.mp (hperm'.mem_iff.mp hr) with h | h
    · exact List.mem_append_left _ h
    · obtain ⟨q, hq, rfl⟩ := List.mem_map.mp h
      exact List.mem_append_right _ (List.mem_map.mpr ⟨q, hds q hq, rfl⟩)
  have hkv : (fileKVs rv).Perm (treeKVs t) := by
    rw [← fileKVs_files_dirs t (dirMembers ms)]; exact hperm'.filterMap _
  have hkeys : ((fileKVs rv).map (·.1)).Nodup := (hkv.map _).nodup_iff.mpr (validTree_keys t hv)
  have I := inv_indexR hv rv hsubt hkeys
  have hfiles : ∀ k, (indexR rv).files k = ((treeKVs t).find? (fun kv => decide (kv.1 = k))).map (·.2) := by
    intro k
    rw [indexR_files, lookup_of_perm t (validTree_keys t hv) _ hkv]
  obtain ⟨D, hD⟩ : ∃ D, D = (indexR rv).dirs := ⟨_, rfl⟩
  rw [← hD] at I
  -- the registered directories are exactly the tree's
  have hhas : ∀ p, has D p ↔ isDirId t p = true := by
    intro p
    refine ⟨I.sound p, fun h => ?_⟩
    rcases (isDirId_iff t p).mp h with h | ⟨q, hq, rfl⟩
    · rw [h]; exact I.root
    · have hqv := hv.2.1 q hq
      rcases hcover q hq with ⟨f, hf, hpre⟩ | ⟨m, hm, hmf, hpre⟩
      · obtain ⟨s, hs⟩ := List.isPrefixOf_iff_prefix.mp hpre
        have hfin : fileReg f ∈ rv := hperm'.mem_iff.mpr (List.mem_append_left _ (List.mem_map.mpr ⟨f, hf, rfl⟩))
        have := has_of_mem_lst _ _ _ (I.fileIn _ hfin f.ext f.bytes rfl)
        apply has_prefix I q s.length s rfl ?_ (by rw [hs]; exact this)
        rw [hs]; exact (hv.1 f hf).1
      · obtain ⟨s, hs⟩ := List.isPrefixOf_iff_prefix.mp hpre
        have hmd : m.norm ∈ dirMembers ms := List.mem_map.mpr ⟨m, List.mem_filter.mpr ⟨hm, by simp [hmf]⟩, rfl⟩
        have hfin : dirReg m.norm ∈ rv := hperm'.mem_iff.mpr (List.mem_append_right _ (List.mem_map.mpr ⟨_, hmd, rfl⟩))
        have := I.dirIn _ hfin rfl
        apply has_prefix I q s.length s rfl ?_ (by rw [hs]; exact this)
        rw [hs]; exact (hv.2.1 _ (hds _ hmd)).2.1
  -- and each is listed as in the tree
  have hlist : ∀ p, isDirId t p = true → (lst D p).Perm ((regsOfTree t).filterMap (childEntry p)) := by
    intro p hp
    apply (List.perm_ext_iff_of_nodup (I.nodup p) ((filterMap_child_sublist p _).nodup (entries_nodup t hv))).mpr
    intro e
    rw [mem_spec]
    constructor
    · intro he
      cases e with
      | file i x =>
        obtain ⟨r, hr, h1, h2, b, h3⟩ := I.fileOk p i x he
        exact ⟨r, hsubt r hr, h1, by simp [Reg.entry, h3, h2]⟩
      | dir q =>
        obtain ⟨h1, h2, h3⟩ := I.dirOk p q he
        rcases (isDirId_iff t q).mp ((hhas q).mp h3) with h | ⟨q', hq', rfl⟩
        · exact absurd h h1
        · have hqv := hv.2.1 q' hq'
          refine ⟨dirReg q', List.mem_append_right _ (List.mem_map.mpr ⟨q', hq', rfl⟩), ?_, rfl⟩
          rw [← h2, par_dirId q' hqv.1 hqv.2.1]; rfl
    · rintro ⟨r, hr, h1, h2⟩
      rcases List.mem_append.mp hr with h | h
      · obtain ⟨f, hf, rfl⟩ := List.mem_map.mp h
        have hfin : fileReg f ∈ rv := hperm'.mem_iff.mpr (List.mem_append_left _ (List.mem_map.mpr ⟨f, hf, rfl⟩))
        have := I.fileIn _ hfin f.ext f.bytes rfl
        rw [h1] at this
        rw [← h2]; exact this
      · obtain ⟨q, hq, rfl⟩ := List.mem_map.mp h
        have hqv := hv.2.1 q hq
        have hq1 : has D (dirId q) := (hhas _).mpr ((isDirId_iff t _).mpr (Or.inr ⟨q, hq, rfl⟩))
        have := (I.up _ hq1 (dirId_ne_nil q hqv.1 hqv.2.1)).2
        rw [par_dirId q hqv.1 hqv.2.1] at this
        rw [← h2, ← h1]; exact this
  have hdget : ∀ p, dget D p = if isDirId t p = true then some (lst D p) else none := by
    intro p
    by_cases h : isDirId t p = true
    · have := (hhas p).mpr h
      unfold has at this
      rw [if_pos h]; unfold lst
      cases hd : dget D p with
      | none => simp [hd] at this
      | some v => rfl
    · have : ¬ has D p := fun hh => h ((hhas p).mp hh)
      unfold has at this
      rw [if_neg h]
      cases hd : dget D p with
      | none => rfl
      | some v => simp [hd] at this
  constructor
  · intro id ext
    rw [sem_read_eq]
    show (match (indexR rv).files (id, ext) with | some b => Res.ok b | none => Res.err Err.notFound) = _
    rw [hfiles]
  · intro p
    show ResPerm (match dget (indexR rv).dirs p with | some es => Res.ok es | none => Res.err Err.notFound) _
    rw [← hD, hdget]
    simp only [sem]
    by_cases h : isDirId t p = true
    · simp only [h, if_true, ResPerm]; exact hlist p h
    · simp [h, ResPerm]
  · intro e
    cases e with
    | file id ext =>
      rw [sem_exist_file_eq]
      show ((indexR rv).files (id, ext)).isSome = _
      rw [hfiles]
    | dir p =>
      show (dget (indexR rv).dirs p).isSome = _
      rw [← hD, hdget]
      simp only [sem]
      by_cases h : isDirId t p = true <;> simp [h]

/-- F-C04's former witness, now an instance: `d/e/f.x` alone shows the directories `d` and `d.e`. -/
example : ValidTree witnessTree ∧ Archives witnessTree witnessArchive ∧
    (viewOfIdx (index witnessArchive)).exist (.dir ['d']) = true ∧
    (viewOfIdx (index witnessArchive)).readDir [] = .ok [.dir ['d']] := by decide

/-- The empty archive of the empty tree: the root exists and is empty. -/
example : Archives ⟨[], []⟩ [] ∧ (viewOfIdx (index [])).readDir [] = .ok [] ∧
    (viewOfIdx (index [])).exist (.dir []) = true := by decide

example : Archives witnessTree
    (witnessArchive ++ [⟨false, [['.'], ['d'], ['e']], false, []⟩, ⟨false, [['d']], false, []⟩]) := by decide

theorem archives_perm {t : Tree} {a b : List Member} (h : a.Perm b) (ha : Archives t a) : Archives t b := by
  obtain ⟨h1, h2, h3, h4, h5⟩ := ha
  refine ⟨fun m hm => h1 m (h.mem_iff.mpr hm), ?_, ?_, fun m hm => h4 m (h.mem_iff.mpr hm), ?_⟩
  · exact (((h.filter _).map _).symm).trans h2
  · exact (((h.filter _).map _).nodup_iff).mp h3
  · intro q hq
    rcases h5 q hq with h' | ⟨m, hm, h'⟩
    · exact Or.inl h'
    · exact Or.inr ⟨m, h.mem_iff.mp hm, h'⟩

/-- The order of the members is irrelevant (in particular a directory member may come after the
files it contains, or be missing altogether). -/
theorem C04_archive_order_irrelevant (t : Tree) (ms ms' : List Member) (hperm : ms.Perm ms') (hv : ValidTree t)
    (ha : Archives t ms) : ViewEq (viewOfIdx (index ms)) (viewOfIdx (index ms')) :=
  (C04_archive t ms hv ha).trans (C04_archive t ms' hv (archives_perm hperm ha)).symm

/-- Directory members are redundant: dropping every directory member that is on the path of
another member does not change the view (both are archives of the same tree). -/
theorem C04_archive_dir_members_irrelevant (t : Tree) (ms ms' : List Member) (hv : ValidTree t)
    (ha : Archives t ms) (ha' : Archives t ms') : ViewEq (viewOfIdx (index ms)) (viewOfIdx (index ms')) :=
  (C04_archive t ms hv ha).trans (C04_archive t ms' hv ha').symm

/-! ## Embedded -/

theorem collectMap_eq {κ β} [DecidableEq κ] (l : List (κ × β)) (k : κ) :
    collectMap l k = (l.reverse.find? (fun kv => decide (kv.1 = k))).map (·.2) := by
  unfold collectMap
  rw [List.foldl_eq_foldr_reverse]
  generalize l.reverse = r
  induction r with
  | nil => rfl
  | cons kv r ih =>
    simp only [List.foldr_cons, upd, List.find?_cons]
    by_cases h : kv.1 = k
    · simp [h]
    · have h' : ¬ k = kv.1 := fun e => h e.symm
      simp [h, h', ih]

theorem find_map_key {γ κ β} [DecidableEq κ] (ks : List γ) (g : γ → κ) (h : κ → β) (p : κ) :
    ((ks.map fun q => (g q, h (g q))).find? (fun kv => decide (kv.1 = p))).map (·.2) =
      if p ∈ ks.map g then some (h p) else none := by
  induction ks with
  | nil => simp
  | cons q qs ih =>
    by_cases hq : g q = p
    · rw [List.map_cons, List.find?_cons_of_pos (by simpa using hq)]
      simp [hq]
    · have hq' : ¬ p = g q := fun e => hq e.symm
      rw [List.map_cons, List.find?_cons_of_neg (by simpa using hq), ih]
      simp only [List.map_cons, List.mem_cons, hq', false_or]

/-- `Embedded::from` over the tables `embed!` generates for a valid tree shows exactly that tree
(listings even in the same order). -/
theorem C04_embedded (t : Tree) (hv : ValidTree t) :
    ViewEq (viewOfIdx (embeddedFrom (embedTables t))) (sem t) := by
  have hfiles : ∀ k, (embeddedFrom (embedTables t)).files k =
      ((treeKVs t).find? (fun kv => decide (kv.1 = k))).map (·.2) := by
    intro k
    show collectMap (treeKVs t) k = _
    rw [collectMap_eq, lookup_of_perm t (validTree_keys t hv) _ (List.reverse_perm _)]
  have hdirs : ∀ p, (embeddedFrom (embedTables t)).dirs p =
      if isDirId t p then some ((regsOfTree t).filterMap (childEntry p)) else none := by
    intro p
    show collectMap (([] :: t.dirs).map fun q => (dirId q, (regsOfTree t).filterMap (childEntry (dirId q)))) p = _
    rw [collectMap_eq, ← List.map_reverse,
      find_map_key _ dirId (fun i => (regsOfTree t).filterMap (childEntry i)) p]
    have : (p ∈ ([] :: t.dirs).reverse.map dirId) ↔ isDirId t p = true := by
      simp only [List.mem_map, List.mem_reverse, List.mem_cons, isDirId, Bool.or_eq_true, decide_eq_true_eq]
      constructor
      · rintro ⟨q, hq | hq, rfl⟩
        · left; rw [hq]; rfl
        · right; exact ⟨q, hq, rfl⟩
      · rintro (h | ⟨q, hq, rfl⟩)
        · exact ⟨[], Or.inl rfl, by rw [h]; rfl⟩
        · exact ⟨q, Or.inr hq, rfl⟩
    by_cases hd : isDirId t p = true
    · rw [if_pos (this.mpr hd), if_pos hd]
    · rw [if_neg (fun h => hd (this.mp h)), if_neg hd]
  constructor
  · intro id ext
    rw [sem_read_eq]
    show (match (embeddedFrom (embedTables t)).files (id, ext) with | some b => Res.ok b | none => Res.err Err.notFound) = _
    rw [hfiles]
  · intro p
    simp only [viewOfIdx, hdirs, sem]
    by_cases h : isDirId t p
    · simp only [h, if_true, ResPerm]; exact List.Perm.refl _
    · simp [h, ResPerm]
  · intro e
    cases e with
    | file id ext => rw [sem_exist_file_eq]; simp only [viewOfIdx, hfiles]
    | dir p =>
      simp only [viewOfIdx, hdirs, sem]
      by_cases h : isDirId t p <;> simp [h]

example : ValidTree witnessTree := by decide

/-! ## every listed entry is readable under the id it was listed with -/

/-- What "readable" means for a listed entry: a file can be read and exists, a directory can be
listed and exists. -/
def Readable (v : View) : Entry → Prop
  | .file id ext => (v.read id ext).isOk = true ∧ v.exist (.file id ext) = true
  | .dir id => (v.readDir id).isOk = true ∧ v.exist (.dir id) = true

theorem sem_listed_readable (t : Tree) (p : Id) (es : List Entry) (h : (sem t).readDir p = .ok es) :
    ∀ e ∈ es, Readable (sem t) e := by
  intro e he
  simp only [sem] at h
  by_cases hp : isDirId t p
  · simp only [hp, if_true, Res.ok.injEq] at h
    subst h
    obtain ⟨r, hr, hre⟩ := List.mem_filterMap.mp he
    simp only [childEntry] at hre
    by_cases hpar : r.parent = p
    · simp only [hpar, if_true, Option.some.injEq] at hre
      subst hre
      simp only [regsOfTree, List.mem_append, List.mem_map] at hr
      rcases hr with ⟨f, hf, rfl⟩ | ⟨q, hq, rfl⟩
      · have hany : t.files.any (fun g => decide (fileId g = fileId f ∧ g.ext = f.ext)) = true :=
          List.any_eq_true.mpr ⟨f, hf, by simp⟩
        simp only [Readable, Reg.entry, fileReg, sem]
        refine ⟨?_, hany⟩
        cases hfind : t.files.find? (fun g => decide (fileId g = fileId f ∧ g.ext = f.ext)) with
        | none => rw [any_eq_find_isSome, hfind] at hany; simp at hany
        | some g => rfl
      · have hd : isDirId t (dirId q) = true := by
          simp only [isDirId, Bool.or_eq_true, decide_eq_true_eq]
          exact Or.inr (List.mem_map.mpr ⟨q, hq, rfl⟩)
        simp [Readable, Reg.entry, dirReg, sem, hd, Res.isOk]
    · simp [hpar] at hre
  · simp [hp] at h

/-- For every source view that shows the tree (each of the theorems above provides one), every
entry produced by `read_dir` is readable / listable under the id it was listed with. -/
theorem C04_listed_is_readable (v : View) (t : Tree) (hv : ViewEq v (sem t)) (p : Id) (es : List Entry)
    (h : v.readDir p = .ok es) : ∀ e ∈ es, Readable v e := by
  intro e he
  have hp := hv.readDir p
  rw [h] at hp
  cases hs : (sem t).readDir p with
  | err x => simp [hs, ResPerm] at hp
  | ok es' =>
    rw [hs] at hp
    have he' : e ∈ es' := (show es.Perm es' from hp).mem_iff.mp he
    have := sem_listed_readable t p es' hs e he'
    cases e with
    | file id ext => simpa [Readable, hv.read, hv.exist] using this
    | dir id =>
      simp only [Readable, hv.exist] at this ⊢
      refine ⟨?_, this.2⟩
      have hd := hv.readDir id
      cases hvd : v.readDir id with
      | ok _ => rfl
      | err x =>
        rw [hvd] at hd
        cases hsd : (sem t).readDir id with
        | ok _ => simp [hsd, ResPerm] at hd
        | err y => simp [hsd, Res.isOk] at this

/-! ## readers do not disturb each other -/

inductive Probe
  | read (id : Id) (ext : Name)
  | readDir (id : Id)
  | exist (e : Entry)

inductive Answer
  | bytes (r : Res Bytes)
  | listing (r : Res (List Entry))
  | bool (b : Bool)

def answer (v : View) : Probe → Answer
  | .read id ext => .bytes (v.read id ext)
  | .readDir id => .listing (v.readDir id)
  | .exist e => .bool (v.exist e)

/-- Several reader threads over one index: a step answers the thread's next probe from the shared
index (the code only takes `&self`: no step writes to it). -/
structure Readers where
  idx : Idx
  progs : Nat → List Probe
  done : Nat → List Answer

def Readers.step (s : Readers) (tid : Nat) : Readers :=
  match s.progs tid with
  | [] => s
  | p :: ps => { s with progs := upd s.progs tid ps, done := upd s.done tid (s.done tid ++ [answer (viewOfIdx s.idx) p]) }

def Readers.run (s : Readers) (σ : List Nat) : Readers := σ.foldl Readers.step s

/-- Whatever the schedule and the number of reader threads, the index is unchanged and every
thread has received exactly the answers a lone reader would get, in program order. -/
theorem C04_reads_commute (s₀ : Readers) (σ : List Nat) :
    (s₀.run σ).idx = s₀.idx ∧
    ∀ t, (s₀.run σ).done t ++ ((s₀.run σ).progs t).map (answer (viewOfIdx s₀.idx)) =
         s₀.done t ++ (s₀.progs t).map (answer (viewOfIdx s₀.idx)) := by
  induction σ generalizing s₀ with
  | nil => exact ⟨rfl, fun _ => rfl⟩
  | cons tid σ ih =>
    have hstep : (s₀.step tid).idx = s₀.idx ∧
        ∀ t, (s₀.step tid).done t ++ ((s₀.step tid).progs t).map (answer (viewOfIdx s₀.idx)) =
             s₀.done t ++ (s₀.progs t).map (answer (viewOfIdx s₀.idx)) := by
      unfold Readers.step
      cases hp : s₀.progs tid with
      | nil => exact ⟨rfl, fun _ => rfl⟩
      | cons p ps =>
        refine ⟨rfl, fun t => ?_⟩
        by_cases ht : t = tid
        · subst ht; simp [upd, hp]
        · simp [upd, ht]
    obtain ⟨h1, h2⟩ := ih (s₀.step tid)
    refine ⟨h1.trans hstep.1, fun t => ?_⟩
    have := h2 t
    rw [hstep.1] at this
    exact this.trans (hstep.2 t)

example : ((Readers.mk (index witnessArchive) (fun _ => [.exist (.dir ['d', '.', 'e']), .read ['d', '.', 'e', '.', 'f'] ['x']]) (fun _ => [])).run
    [0, 1, 1, 0]).progs 0 = [] := by decide

/-! ## FileSystem -/

/-- Well-formed ids: dot-separated valid names (the empty list is the root id `""`). Ids with
empty components (`"a..b"`, `".a"`, `"a."`) are outside the property: `path_of_entry` drops the
empty components, so `FileSystem` resolves `"a..b"` like `"a.b"` — compared model-versus-code by
the `src` engine, without oracle. -/
def WfComps (cs : List Name) : Prop := ∀ c ∈ cs, ValidName c

/-- Two views answer alike on every well-formed id (and dot-free extension). -/
structure ViewEqWf (v w : View) : Prop where
  read : ∀ cs ext, WfComps cs → ValidExt ext → v.read (joinDot cs) ext = w.read (joinDot cs) ext
  readDir : ∀ cs, WfComps cs → ResPerm (v.readDir (joinDot cs)) (w.readDir (joinDot cs))
  existFile : ∀ cs ext, WfComps cs → ValidExt ext →
    v.exist (.file (joinDot cs) ext) = w.exist (.file (joinDot cs) ext)
  existDir : ∀ cs, WfComps cs → v.exist (.dir (joinDot cs)) = w.exist (.dir (joinDot cs))

theorem ViewEq.toWf {v w} (h : ViewEq v w) : ViewEqWf v w :=
  ⟨fun _ _ _ _ => h.read _ _, fun _ _ => h.readDir _, fun _ _ _ _ => h.exist _, fun _ _ => h.exist _⟩

theorem ViewEqWf.symm {v w} (h : ViewEqWf v w) : ViewEqWf w v :=
  ⟨fun cs e a b => (h.read cs e a b).symm, fun cs a => (h.readDir cs a).symm,
   fun cs e a b => (h.existFile cs e a b).symm, fun cs a => (h.existDir cs a).symm⟩

theorem ViewEqWf.trans {u v w} (h : ViewEqWf u v) (h' : ViewEqWf v w) : ViewEqWf u w :=
  ⟨fun cs e a b => (h.read cs e a b).trans (h'.read cs e a b), fun cs a => (h.readDir cs a).trans (h'.readDir cs a),
   fun cs e a b => (h.existFile cs e a b).trans (h'.existFile cs e a b), fun cs a => (h.existDir cs a).trans (h'.existDir cs a)⟩

/-- Full strength: on well-formed ids the file-system view of a valid tree is the specification
view — `read`, `read_dir`, `exists` of both kinds, the root included; a directory is not a file,
a file is not a directory, and everything absent (also below a file) is *not found*. -/
def C04_fs_stmt : Prop := ∀ t, ValidTree t → ViewEqWf (fsView t) (sem t)

theorem comps_of_id (cs : List Name) (hv : ∀ c ∈ cs, ValidName c) :
    (splitDot (joinDot cs)).filter (· ≠ []) = cs := by
  have hfilter : cs.filter (· ≠ []) = cs := by
    apply List.filter_eq_self.mpr
    intro c hc
    simpa using (hv c hc).1
  cases cs with
  | nil => simp [joinDot, splitDot]
  | cons c cs' =>
    rw [split_join _ (by simp) (fun w hw => (hv w hw).2)]
    exact hfilter

/-- Two valid component lists with the same id are equal (id → path is injective). -/
theorem joinDot_inj (a b : List Name) (ha : ∀ c ∈ a, ValidName c) (hb : ∀ c ∈ b, ValidName c)
    (h : joinDot a = joinDot b) : a = b := by
  rw [← comps_of_id a ha, ← comps_of_id b hb, h]

/-- `path_of_entry(File(id, ext))` of a well-formed id is the path of the file `stem.ext` in the
directory named by the other components. -/
theorem pathOfEntry_file (ini : List Name) (l ext : Name) (hi : ∀ c ∈ ini, ValidName c) (hl : ValidName l) :
    pathOfEntry (joinDot (ini ++ [l])) (some ext) = some (filePath ⟨ini, l, ext, []⟩) := by
  have hv : ∀ c ∈ ini ++ [l], ValidName c := by
    intro c hc
    rcases List.mem_append.mp hc with h | h
    · exact hi c h
    · simpa [List.mem_singleton.mp h] using hl
  simp only [pathOfEntry, comps_of_id _ hv, List.getLast?_append, List.getLast?_singleton, List.dropLast_concat]
  simp [setExtension, splitExt_dotfree l hl, filePath, fileName]

theorem filePath_eq_iff (f : FileN) (ini : List Name) (l ext : Name) (hs : ValidName f.stem) (he : ValidExt f.ext)
    (hl : ValidName l) (hx : ValidExt ext) :
    filePath f = filePath ⟨ini, l, ext, []⟩ ↔ f.dir = ini ∧ f.stem = l ∧ f.ext = ext := by
  constructor
  · intro h
    obtain ⟨h1, h2⟩ := List.append_singleton_inj.mp h
    have a := splitExt_fileName f hs he
    have b := splitExt_fileName ⟨ini, l, ext, []⟩ hl hx
    rw [h2] at a
    exact ⟨h1, a.1.symm.trans b.1, a.2.symm.trans b.2⟩
  · rintro ⟨h1, h2, h3⟩
    simp [filePath, fileName, h1, h2, h3]

/-- The path of a file `stem.ext` (non-empty extension) is never a directory of a valid tree. -/
theorem filePath_not_dir (t : Tree) (hv : ValidTree t) (ini : List Name) (l ext : Name) (hne : ext ≠ []) :
    filePath ⟨ini, l, ext, []⟩ ∉ t.dirs := by
  intro h
  have := (hv.2.1 _ h).2.1 (fileName ⟨ini, l, ext, []⟩) (by simp [filePath])
  have hx : ext.isEmpty = false := by cases ext <;> simp_all
  exact this.2 (by simp [fileName, hx])

/-- Every prefix of a directory of a valid tree is the root or a directory of the tree. -/
theorem prefix_dir (t : Tree) (hv : ValidTree t) : ∀ (n : Nat) (q : List Name), q.length = n → (q = [] ∨ q ∈ t.dirs) →
    ∀ k, q.take k = [] ∨ q.take k ∈ t.dirs := by
  intro n
  induction n with
  | zero =>
    intro q hq _ k
    have : q = [] := List.length_eq_zero_iff.mp hq
    left; simp [this]
  | succ n ih =>
    intro q hq hd k
    rcases hd with hd | hd
    · left; simp [hd]
    · by_cases hk : q.length ≤ k
      · right; rw [List.take_of_length_le hk]; exact hd
      · have hk' : k ≤ q.length - 1 := by omega
        have : q.take k = q.dropLast.take k := by
          rw [List.dropLast_eq_take, List.take_take, Nat.min_eq_left hk']
        rw [this]
        apply ih q.dropLast (by simp [hq])
        rcases (hv.2.1 q hd).2.2 with h | h
        · exact Or.inl h
        · exact Or.inr h

/-- A directory of the tree resolves to a directory. -/
theorem fsResolve_dir (t : Tree) (hv : ValidTree t) (q : List Name) (hq : q = [] ∨ q ∈ t.dirs) :
    fsResolve t q = .found .dir := by
  have hpre := prefix_dir t hv q.length q rfl hq
  have hnode : ∀ p, (p = [] ∨ p ∈ t.dirs) → fsNode t p = some .dir := by
    intro p hp; simp [fsNode, hp]
  unfold fsResolve
  have hany : (List.range q.length).any (fun k => isFileNode (fsNode t (q.take k))) = false := by
    apply List.any_eq_false.mpr
    intro k _
    rw [hnode _ (hpre k)]; simp [isFileNode]
  rw [hany]
  simp [hnode q hq]

/-- Anything else does not. -/
theorem fsResolve_not_dir (t : Tree) (q : List Name) (hq : ¬ (q = [] ∨ q ∈ t.dirs)) :
    fsResolve t q ≠ .found .dir := by
  unfold fsResolve
  split
  · simp
  · simp only [fsNode, hq, if_false]
    cases t.files.find? (fun f => decide (filePath f = q)) <;> simp

theorem isDirId_joinDot (t : Tree) (hv : ValidTree t) (cs : List Name) (hcs : WfComps cs) :
    isDirId t (joinDot cs) = true ↔ (cs = [] ∨ cs ∈ t.dirs) := by
  rw [isDirId_iff]
  constructor
  · rintro (h | ⟨q, hq, h⟩)
    · left
      cases cs with
      | nil => rfl
      | cons c cs' => exact absurd h (joinDot_ne_nil _ (by simp) (fun x hx => (hcs x hx).1))
    · right
      have := joinDot_inj q cs (hv.2.1 q hq).2.1 hcs h
      rw [← this]; exact hq
  · rintro (h | h)
    · left; rw [h]; rfl
    · right; exact ⟨cs, h, rfl⟩

theorem childId_joinDot (cs : List Name) (s : Name) (hcs : WfComps cs) :
    childId (joinDot cs) s = joinDot (cs ++ [s]) := by
  unfold childId
  cases cs with
  | nil => simp [joinDot]
  | cons c cs' =>
    have hne : joinDot (c :: cs') ≠ [] := joinDot_ne_nil _ (by simp) (fun x hx => (hcs x hx).1)
    have : (joinDot (c :: cs')).isEmpty = false := by
      cases h : joinDot (c :: cs') with
      | nil => exact absurd h hne
      | cons _ _ => rfl
    rw [joinDot_snoc _ _ (by simp)]
    simp [this]

/-- `FileSystem::read_dir` of a directory lists exactly the tree's entries (in the same order). -/
theorem fsChildren_eq (t : Tree) (hv : ValidTree t) (cs : List Name) (hcs : WfComps cs) :
    fsChildren t cs (joinDot cs) = (regsOfTree t).filterMap (childEntry (joinDot cs)) := by
  unfold fsChildren regsOfTree
  rw [List.filterMap_append, List.filterMap_map, List.filterMap_map]
  congr 1
  · apply filterMap_congr'
    intro f hf
    have hfv := hv.1 f hf
    obtain ⟨h1, h2⟩ := splitExt_fileName f hfv.2.1 hfv.2.2.1
    by_cases hd : f.dir = cs
    · have : joinDot f.dir = joinDot cs := by rw [hd]
      have hid : childId (joinDot cs) f.stem = fileId f := by rw [childId_joinDot cs _ hcs, ← hd]; rfl
      simp [childEntry, fileReg, Reg.entry, dirId, hd, h1, h2, hid]
    · have : ¬ joinDot f.dir = joinDot cs := fun e => hd (joinDot_inj _ _ hfv.1 hcs e)
      simp [childEntry, fileReg, Reg.entry, dirId, hd, this]
  · apply filterMap_congr'
    intro q hq
    have hqv := hv.2.1 q hq
    have hlast : q = q.dropLast ++ [q.getLast hqv.1] := (List.dropLast_concat_getLast hqv.1).symm
    have hl : ValidName (q.getLast hqv.1) := hqv.2.1 _ (List.getLast_mem hqv.1)
    have hdl : WfComps q.dropLast := fun c hc => hqv.2.1 c (List.dropLast_subset q hc)
    have hg : q.getLast? = some (q.getLast hqv.1) := List.getLast?_eq_some_getLast hqv.1
    by_cases hd : q.dropLast = cs
    · have : joinDot q.dropLast = joinDot cs := by rw [hd]
      have hid : childId (joinDot cs) (q.getLast hqv.1) = joinDot q := by
        rw [childId_joinDot cs _ hcs, ← hd, ← hlast]
      simp [childEntry, dirReg, Reg.entry, dirId, hg, hd, splitExt_dotfree _ hl, hid]
    · have : ¬ joinDot q.dropLast = joinDot cs := fun e => hd (joinDot_inj _ _ hdl hcs e)
      simp [childEntry, dirReg, Reg.entry, dirId, hg, hd, this]

theorem fileId_ne_nil (t : Tree) (hv : ValidTree t) (f : FileN) (hf : f ∈ t.files) : fileId f ≠ [] := by
  have hfv := hv.1 f hf
  apply joinDot_ne_nil _ (by simp)
  intro c hc
  rcases List.mem_append.mp hc with h | h
  · exact (hfv.1 c h).1
  · rw [List.mem_singleton.mp h]; exact hfv.2.1.1

/-- How the path of a well-formed file id resolves: to the file with that id and extension if
the tree has one, and to no file otherwise. -/
theorem fsResolve_file (t : Tree) (hv : ValidTree t) (ini : List Name) (l ext : Name)
    (hi : ∀ c ∈ ini, ValidName c) (hl : ValidName l) (hx : ValidExt ext) :
    match t.files.find? (fun f => decide (fileId f = joinDot (ini ++ [l]) ∧ f.ext = ext)) with
    | some f => fsResolve t (filePath ⟨ini, l, ext, []⟩) = .found (.file f.bytes)
    | none => ∀ b, fsResolve t (filePath ⟨ini, l, ext, []⟩) ≠ .found (.file b) := by
  have hvcs : ∀ c ∈ ini ++ [l], ValidName c := by
    intro c hc
    rcases List.mem_append.mp hc with h | h
    · exact hi c h
    · simpa [List.mem_singleton.mp h] using hl
  -- both sides look for the same file
  have hpred : ∀ f ∈ t.files, (decide (filePath f = filePath ⟨ini, l, ext, []⟩)) =
      decide (fileId f = joinDot (ini ++ [l]) ∧ f.ext = ext) := by
    intro f hf
    have hfv := hv.1 f hf
    have hfcs : ∀ c ∈ f.dir ++ [f.stem], ValidName c := by
      intro c hc
      rcases List.mem_append.mp hc with h | h
      · exact hfv.1 c h
      · simpa [List.mem_singleton.mp h] using hfv.2.1
    rw [decide_eq_decide, filePath_eq_iff f ini l ext hfv.2.1 hfv.2.2.1 hl hx]
    constructor
    · rintro ⟨h1, h2, h3⟩; exact ⟨by simp [fileId, h1, h2], h3⟩
    · rintro ⟨h1, h3⟩
      have := List.append_singleton_inj.mp (joinDot_inj _ _ hfcs hvcs h1)
      exact ⟨this.1, this.2, h3⟩
  have hfind : t.files.find? (fun f => decide (filePath f = filePath ⟨ini, l, ext, []⟩)) =
      t.files.find? (fun f => decide (fileId f = joinDot (ini ++ [l]) ∧ f.ext = ext)) :=
    find?_congr' _ _ _ hpred
  cases hfd : t.files.find? (fun f => decide (fileId f = joinDot (ini ++ [l]) ∧ f.ext = ext)) with
  | none =>
    intro b hb
    have hnode : fsNode t (filePath ⟨ini, l, ext, []⟩) ≠ some (.file b) := by
      intro hn
      unfold fsNode at hn
      by_cases hdd : filePath ⟨ini, l, ext, []⟩ = [] ∨ filePath ⟨ini, l, ext, []⟩ ∈ t.dirs
      · rw [if_pos hdd] at hn; cases hn
      · rw [if_neg hdd, hfind, hfd] at hn; cases hn
    unfold fsResolve at hb
    by_cases ha : (List.range (filePath ⟨ini, l, ext, []⟩).length).any
        (fun k => isFileNode (fsNode t ((filePath ⟨ini, l, ext, []⟩).take k))) = true
    · rw [if_pos ha] at hb; cases hb
    · rw [if_neg ha] at hb
      cases hn : fsNode t (filePath ⟨ini, l, ext, []⟩) with
      | none => rw [hn] at hb; cases hb
      | some n =>
        rw [hn] at hb
        injection hb with hb
        rw [hb] at hn
        exact hnode hn
  | some f =>
    have hf : f ∈ t.files := List.mem_of_find?_eq_some hfd
    have hp := List.find?_some hfd
    simp only [decide_eq_true_eq] at hp
    have hfv := hv.1 f hf
    have hfcs : ∀ c ∈ f.dir ++ [f.stem], ValidName c := by
      intro c hc
      rcases List.mem_append.mp hc with h | h
      · exact hfv.1 c h
      · simpa [List.mem_singleton.mp h] using hfv.2.1
    obtain ⟨hdir, hstem⟩ := List.append_singleton_inj.mp (joinDot_inj _ _ hfcs hvcs hp.1)
    have hdirs : ini = [] ∨ ini ∈ t.dirs := by rw [← hdir]; exact hfv.2.2.2
    -- the path itself is not a directory
    have hnd : ¬ (filePath ⟨ini, l, ext, []⟩ = [] ∨ filePath ⟨ini, l, ext, []⟩ ∈ t.dirs) := by
      rintro (h | h)
      · simp [filePath] at h
      · by_cases hext : ext = []
        · have h5 := hv.2.2.2.2 f hf (hp.2.trans hext)
          apply h5
          rw [hdir, hstem]
          simpa [filePath, fileName, hext] using h
        · exact filePath_not_dir t hv ini l ext hext h
    -- no proper prefix of it is a file: they are prefixes of the directory `ini`
    have hpre := prefix_dir t hv ini.length ini rfl hdirs
    have hany : (List.range (filePath ⟨ini, l, ext, []⟩).length).any
        (fun k => isFileNode (fsNode t ((filePath ⟨ini, l, ext, []⟩).take k))) = false := by
      apply List.any_eq_false.mpr
      intro k hk
      have hk' : k ≤ ini.length := by
        have := List.mem_range.mp hk
        simp [filePath] at this
        omega
      have : (filePath ⟨ini, l, ext, []⟩).take k = ini.take k := by
        simp only [filePath]
        rw [List.take_append_of_le_length hk']
      rw [this]
      have hn : fsNode t (ini.take k) = some .dir := by
        unfold fsNode; rw [if_pos (hpre k)]
      rw [hn]; simp [isFileNode]
    unfold fsResolve
    rw [hany]
    simp only [fsNode, hnd, if_false, hfind, hfd]
    simp

/-- **FileSystem, full strength** (on well-formed ids). -/
theorem C04_fs : C04_fs_stmt := by
  intro t hv
  have hdirView : ∀ cs, WfComps cs →
      (fsView t).readDir (joinDot cs) =
        (if cs = [] ∨ cs ∈ t.dirs then .ok (fsChildren t cs (joinDot cs)) else .err .notFound) ∧
      (fsView t).exist (.dir (joinDot cs)) = decide (cs = [] ∨ cs ∈ t.dirs) := by
    intro cs hcs
    have hpath : pathOfEntry (joinDot cs) none = some cs := by
      have := comps_of_id cs hcs
      simp only [pathOfEntry]; rw [this]
    by_cases hd : cs = [] ∨ cs ∈ t.dirs
    · simp [fsView, fsViewWith, hpath, fsResolve_dir t hv cs hd, hd]
    · have hn := fsResolve_not_dir t cs hd
      simp only [fsView, fsViewWith, hpath, hd, if_false, fsCfg, decide_false]
      cases hr : fsResolve t cs with
      | found n => cases n with
        | dir => exact absurd hr hn
        | file b => simp
      | absent => simp
      | notDir => simp
  have hfileView : ∀ cs ext, WfComps cs → ValidExt ext →
      (fsView t).read (joinDot cs) ext = (sem t).read (joinDot cs) ext ∧
      (fsView t).exist (.file (joinDot cs) ext) = (sem t).exist (.file (joinDot cs) ext) := by
    intro cs ext hcs hx
    rcases List.eq_nil_or_concat cs with rfl | ⟨ini, l, hcl⟩
    · -- the root id is not a file
      have hnone : t.files.find? (fun f => decide (fileId f = joinDot [] ∧ f.ext = ext)) = none := by
        apply List.find?_eq_none.mpr
        intro f hf
        have := fileId_ne_nil t hv f hf
        simp [joinDot, this]
      have hsem : (sem t).read (joinDot []) ext = .err .notFound ∧ (sem t).exist (.file (joinDot []) ext) = false := by
        simp only [sem, any_eq_find_isSome, hnone]; simp
      rw [hsem.1, hsem.2]
      by_cases he : ext = []
      · have hpath : pathOfEntry (joinDot []) (some ext) = some [] := by simp [pathOfEntry, joinDot, splitDot, he]
        simp [fsView, fsViewWith, hpath, fsResolve_dir t hv [] (Or.inl rfl), fsCfg]
      · have hemp : ext.isEmpty = false := by cases ext <;> simp_all
        have hpath : pathOfEntry (joinDot []) (some ext) = none := by simp [pathOfEntry, joinDot, splitDot, hemp]
        simp [fsView, fsViewWith, hpath]
    · rw [List.concat_eq_append] at hcl
      subst hcl
      have hi : ∀ c ∈ ini, ValidName c := fun c hc => hcs c (by simp [hc])
      have hl : ValidName l := hcs l (by simp)
      have hres := fsResolve_file t hv ini l ext hi hl hx
      have hpath := pathOfEntry_file ini l ext hi hl
      cases hfd : t.files.find? (fun f => decide (fileId f = joinDot (ini ++ [l]) ∧ f.ext = ext)) with
      | some f =>
        rw [hfd] at hres
        simp only [fsView, fsViewWith, hpath, sem, any_eq_find_isSome, hfd]
        rw [hres]; simp
      | none =>
        rw [hfd] at hres
        simp only [fsView, fsViewWith, hpath, sem, any_eq_find_isSome, hfd, fsCfg]
        cases hr : fsResolve t (filePath ⟨ini, l, ext, []⟩) with
        | found n => cases n with
          | file b => exact absurd hr (hres b)
          | dir => simp
        | absent => simp
        | notDir => simp
  refine ⟨fun cs ext hcs hx => (hfileView cs ext hcs hx).1, ?_, fun cs ext hcs hx => (hfileView cs ext hcs hx).2, ?_⟩
  · intro cs hcs
    rw [(hdirView cs hcs).1]
    simp only [sem]
    by_cases hd : cs = [] ∨ cs ∈ t.dirs
    · rw [if_pos hd, if_pos ((isDirId_joinDot t hv cs hcs).mpr hd), fsChildren_eq t hv cs hcs]
      exact List.Perm.refl _
    · have : ¬ isDirId t (joinDot cs) = true := fun h => hd ((isDirId_joinDot t hv cs hcs).mp h)
      rw [if_neg hd, if_neg this]; rfl
  · intro cs hcs
    rw [(hdirView cs hcs).2]
    simp only [sem]
    by_cases hd : cs = [] ∨ cs ∈ t.dirs
    · rw [(isDirId_joinDot t hv cs hcs).mpr hd]; simp [hd]
    · have : isDirId t (joinDot cs) = false := by
        cases h : isDirId t (joinDot cs) with
        | false => rfl
        | true => exact absurd ((isDirId_joinDot t hv cs hcs).mp h) hd
      rw [this]; simp [hd]

/-- Kind confusion's former witnesses, now instances: in the tree with the single directory `d`
there is no file `d`, reading it is *not found*; a file `a` is not a directory. -/
example : (fsView ⟨[], [[['d']]]⟩).exist (.file ['d'] []) = false ∧
    (fsView ⟨[], [[['d']]]⟩).read ['d'] [] = .err .notFound ∧
    (fsView ⟨[⟨[], ['a'], [], []⟩], []⟩).exist (.dir ['a']) = false ∧
    (fsView ⟨[⟨[], ['a'], [], []⟩], []⟩).readDir ['a'] = .err .notFound ∧
    (fsView ⟨[⟨[], ['a'], [], []⟩], []⟩).read ['a', '.', 'b'] ['x'] = .err .notFound := by decide

/-- **All four sources agree** on every well-formed id: the file system, every archive of the
tree and the embedded form answer alike. -/
theorem C04_sources_agree (t : Tree) (ms : List Member) (hv : ValidTree t) (ha : Archives t ms) :
    ViewEqWf (fsView t) (viewOfIdx (index ms)) ∧
    ViewEqWf (fsView t) (viewOfIdx (embeddedFrom (embedTables t))) ∧
    ViewEq (viewOfIdx (index ms)) (viewOfIdx (embeddedFrom (embedTables t))) :=
  ⟨(C04_fs t hv).trans (C04_archive t ms hv ha).toWf.symm,
   (C04_fs t hv).trans (C04_embedded t hv).toWf.symm,
   (C04_archive t ms hv ha).trans (C04_embedded t hv).symm⟩

end AmVerif.Props.C04
