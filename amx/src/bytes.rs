//! `SharedBytes` / `SharedString` (src/utils/bytes.rs, src/utils/string.rs) → `Gen/Bytes.lean`.
//!
//! Recognises exactly the shapes the two files have today (plus harmless variations of
//! literals, orderings, comparison operators, field choices) and refuses everything else:
//!  * `struct Inner` → field list (word-sized fields only) → `Inner_layout`;
//!  * `get_inner_layout` → `Layout` arithmetic term;
//!  * `clone` / `drop` → one atomic primitive each as an `Atom` computation, `drop`'s "was last" test;
//!  * `drop_slow` → atomics before the first free, the branch condition, per branch whether the
//!    leaked `Vec` is rebuilt and dropped and which layout goes to `dealloc`;
//!  * `from_slice` / `from_vec` → layout given to `alloc`, the `Inner { .. }` literal, the copy;
//!  * `deref` → the two header fields handed to `slice::from_raw_parts`;
//!  * the `From` / `FromIterator` impls → which constructor each bottoms out in;
//!  * every `SharedString { bytes }` literal → why its bytes are UTF-8; calls of
//!    `SharedString::from_utf8_unchecked` anywhere under src/;
//!  * `PartialEq` / `PartialOrd` / `Ord` / `Hash` between two values → whether they go through the slices.

use crate::{find::{find_fn, type_name}, Ctx};
use quote::ToTokens;
use std::collections::BTreeMap;
use syn::{Expr, Item, Stmt};

const ATOMIC_PRIMS: &[&str] = &["load", "store", "swap", "fetch_add", "fetch_sub", "fetch_max", "fetch_min"];

fn ts(t: &dyn ToTokens) -> String { t.to_token_stream().to_string().replace(' ', "") }

fn camel(s: &str) -> String {
    let mut out = String::new();
    let mut up = false;
    for c in s.chars() { if c == '_' { up = true } else if up { out.push(c.to_ascii_uppercase()); up = false } else { out.push(c) } }
    out
}

fn refuse<T>(what: &str, e: &dyn ToTokens) -> Result<T, String> { Err(format!("bytes: unsupported {what}: `{}`", e.to_token_stream())) }

/// `<recv>.<prim>(args.., Ordering::X)` on the receiver text `recv` → (prim, [arg texts], ordering)
fn atomic_call(e: &Expr, recv: &str) -> Option<(String, Vec<String>, String)> {
    let Expr::MethodCall(m) = e else { return None };
    let name = m.method.to_string();
    if ts(&m.receiver) != recv || !ATOMIC_PRIMS.contains(&name.as_str()) { return None; }
    let mut args: Vec<String> = m.args.iter().map(|a| ts(a)).collect();
    let ord = args.pop()?;
    let ord = ord.strip_prefix("Ordering::")?.to_string();
    if !["Relaxed", "Release", "Acquire", "AcqRel", "SeqCst"].contains(&ord.as_str()) { return None; }
    if !args.iter().all(|a| a.chars().all(|c| c.is_ascii_digit())) { return None; }
    Some((name, args, ord))
}

fn strip_unsafe(e: &Expr) -> &Expr {
    match e {
        Expr::Unsafe(u) if u.block.stmts.len() == 1 => match &u.block.stmts[0] { Stmt::Expr(x, _) => strip_unsafe(x), _ => e },
        Expr::Paren(p) => strip_unsafe(&p.expr),
        _ => e,
    }
}

/// Layout-valued expression → Lean term of type `Option Layout`; `names` maps Rust locals to Lean names.
fn layout_expr(e: &Expr, names: &BTreeMap<String, String>) -> Result<String, String> {
    let s = ts(strip_unsafe(e));
    if s == "alloc::Layout::new::<Inner>()" || s == "Layout::new::<Inner>()" || s == "std::alloc::Layout::new::<Inner>()" { return Ok("some Inner_layout".into()); }
    for pre in ["Self::get_inner_layout(", "SharedBytes::get_inner_layout("] {
        if let Some(rest) = s.strip_prefix(pre) {
            let arg = rest.strip_suffix(')').ok_or("layout call")?;
            if let Some(l) = names.get(arg) { return Ok(format!("SharedBytes_get_inner_layout {l}")); }
        }
    }
    refuse("layout expression", e)
}

fn cmp_op(op: &syn::BinOp) -> Option<&'static str> {
    use syn::BinOp::*;
    Some(match op { Eq(_) => "=", Ne(_) => "≠", Lt(_) => "<", Le(_) => "≤", Gt(_) => ">", Ge(_) => "≥", _ => return None })
}

fn int_lit(e: &Expr) -> Option<String> {
    match e { Expr::Lit(l) => match &l.lit { syn::Lit::Int(i) => Some(i.base10_digits().to_string()), _ => None }, _ => None }
}

fn body_stmts(b: &syn::Block) -> Vec<&Stmt> {
    // a body that is one `unsafe { .. }` block counts as its contents; nested items and
    // `debug_assert*!` statements are not part of the modelled behaviour
    let stmts: Vec<&Stmt> = if b.stmts.len() == 1 {
        match &b.stmts[0] { Stmt::Expr(Expr::Unsafe(u), None) => u.block.stmts.iter().collect(), _ => b.stmts.iter().collect() }
    } else { b.stmts.iter().collect() };
    stmts.into_iter().filter(|s| match s {
        Stmt::Item(_) => false,
        Stmt::Macro(m) => !m.mac.path.segments.last().map(|x| x.ident.to_string().starts_with("debug_assert")).unwrap_or(false),
        _ => true,
    }).collect()
}

fn let_parts(st: &Stmt) -> Option<(String, &Expr)> {
    if let Stmt::Local(l) = st {
        let init = l.init.as_ref()?;
        if init.diverge.is_some() { return None; }
        return Some((ts(&l.pat), &init.expr));
    }
    None
}

// ------------------------------------------------------------------ pieces

fn gen_inner(file: &syn::File) -> Result<String, String> {
    let st = file.items.iter().find_map(|i| match i { Item::Struct(s) if s.ident == "Inner" => Some(s), _ => None }).ok_or("struct Inner not found")?;
    if st.attrs.iter().any(|a| a.path().is_ident("repr")) { return Err("struct Inner has a repr attribute".into()); }
    if !st.generics.params.is_empty() { return Err("struct Inner is generic".into()); }
    let mut fs = vec![];
    for f in st.fields.iter() {
        let name = f.ident.as_ref().ok_or("tuple struct Inner")?.to_string();
        if !["count", "ptr", "len", "capacity"].contains(&name.as_str()) { return Err(format!("struct Inner: unknown field `{name}`")); }
        let kind = match ts(&f.ty).as_str() { "AtomicUsize" => "atomicUsize", "usize" => "usize", "*constu8" | "*mutu8" => "ptr", other => return Err(format!("struct Inner: field `{name}` has non-word type `{other}`")) };
        fs.push(format!("(.{name}, .{kind})"));
    }
    Ok(format!("/-- fields of `struct Inner`, in declaration order -/\ndef Inner_fields : List (HeaderField × FieldKind) := [{}]\n\n/-- `Layout::new::<Inner>()` -/\ndef Inner_layout : Layout := Layout.ofWords Inner_fields.length\n\n", fs.join(", ")))
}

fn gen_get_inner_layout(file: &syn::File) -> Result<String, String> {
    let f = find_fn(file, "SharedBytes", "get_inner_layout")?;
    let ps: Vec<String> = f.sig.inputs.iter().filter_map(|a| match a { syn::FnArg::Typed(t) => Some(ts(&t.pat)), _ => None }).collect();
    if ps.len() != 1 { return Err("get_inner_layout: expected one parameter".into()); }
    let has_diverging_helper = f.block.stmts.iter().any(|s| matches!(s, Stmt::Item(Item::Fn(h)) if h.sig.ident == "too_long" && ts(&h.sig.output) == "->!"));
    let stmts = body_stmts(f.block);
    if stmts.len() != 3 { return Err(format!("get_inner_layout: expected 3 statements, found {}", stmts.len())); }
    // let slice_layout = unsafe { Layout::from_size_align_unchecked(len, A) };
    let (n1, e1) = let_parts(stmts[0]).ok_or("get_inner_layout: statement 1")?;
    let s1 = ts(strip_unsafe(e1));
    let inner = s1.strip_prefix("alloc::Layout::from_size_align_unchecked(").or_else(|| s1.strip_prefix("Layout::from_size_align_unchecked(")).and_then(|r| r.strip_suffix(')')).ok_or_else(|| format!("get_inner_layout: unsupported `{s1}`"))?;
    let (a, b) = inner.split_once(',').ok_or("from_size_align_unchecked args")?;
    if a != ps[0] || !b.chars().all(|c| c.is_ascii_digit()) { return Err(format!("get_inner_layout: unsupported slice layout `{s1}`")); }
    // let (layout, offset) = Layout::new::<Inner>().extend(slice_layout).unwrap_or_else(|_| too_long());
    let Stmt::Local(l2) = stmts[1] else { return Err("get_inner_layout: statement 2".into()) };
    let syn::Pat::Tuple(tp) = &l2.pat else { return Err("get_inner_layout: statement 2 pattern".into()) };
    if tp.elems.len() != 2 { return Err("get_inner_layout: statement 2 pattern".into()); }
    let lay_name = ts(&tp.elems[0]);
    let init = ts(&l2.init.as_ref().ok_or("get_inner_layout: statement 2")?.expr);
    let want = format!("alloc::Layout::new::<Inner>().extend({n1}).unwrap_or_else(|_|too_long())");
    if init != want || !has_diverging_helper { return Err(format!("get_inner_layout: unsupported `{init}`")); }
    // tail: layout
    match stmts[2] { Stmt::Expr(e, None) if ts(e) == lay_name => {} other => return refuse("get_inner_layout tail", other) }
    Ok(format!("/-- `SharedBytes::get_inner_layout`; `none` = the `too_long()` panic -/\ndef SharedBytes_get_inner_layout ({p} : Nat) : Option Layout :=\n  let {n1} := Layout.mk {p} {b}\n  match Layout.extend Inner_layout {n1} with\n  | some ({lay_name}, _) => some {lay_name}\n  | none => none\n\n", p = ps[0]))
}

type Prims = Vec<(String, String)>;

fn gen_clone(file: &syn::File, prims: &mut Prims) -> Result<String, String> {
    let f = find_fn(file, "Clone for SharedBytes", "clone")?;
    let stmts = body_stmts(f.block);
    let n = stmts.len();
    if n < 2 { return Err("clone: expected atomic statement(s) and a tail".into()); }
    let mut out = String::from("def SharedBytes_clone : Atom Unit := fun cell =>\n");
    for (k, st) in stmts[..n - 1].iter().enumerate() {
        let Stmt::Expr(e, Some(_)) = st else { return refuse("clone statement", st) };
        let (p, args, ord) = atomic_call(e, "self.inner().count").ok_or_else(|| format!("clone: unsupported statement `{}`", ts(st)))?;
        out.push_str(&format!("  let (r{k}, cell) := Atom.{} Ord.{ord} {} cell\n", camel(&p), args.join(" ")));
        prims.push((p, ord));
    }
    match stmts[n - 1] { Stmt::Expr(e, None) if ts(e) == "Self{ptr:self.ptr}" => {} other => return refuse("clone tail (must alias the same header)", other) }
    out.push_str("  ((), cell)\n\n");
    Ok(out)
}

fn gen_drop(file: &syn::File, prims: &mut Prims) -> Result<String, String> {
    let f = find_fn(file, "Drop for SharedBytes", "drop")?;
    let stmts = body_stmts(f.block);
    if stmts.len() != 1 { return Err("drop: expected a single `if`".into()); }
    let Stmt::Expr(Expr::If(i), _) = stmts[0] else { return refuse("drop statement", stmts[0]) };
    if i.else_branch.is_some() { return refuse("drop: else branch", i); }
    let Expr::Binary(b) = &*i.cond else { return refuse("drop condition", &i.cond) };
    let op = cmp_op(&b.op).ok_or("drop: comparison operator")?;
    let lit = int_lit(&b.right).ok_or_else(|| format!("drop: unsupported condition `{}`", ts(&i.cond)))?;
    let (p, args, ord) = atomic_call(&b.left, "self.inner().count").ok_or_else(|| format!("drop: unsupported condition `{}`", ts(&i.cond)))?;
    let then = ts(&i.then_branch);
    if then != "{unsafe{self.drop_slow();}}" && then != "{unsafe{self.drop_slow()}}" { return refuse("drop: then-branch", &i.then_branch); }
    prims.push((p.clone(), ord.clone()));
    Ok(format!("/-- `true` = this call goes on to `drop_slow` -/\ndef SharedBytes_drop : Atom Bool := fun cell =>\n  let (r0, cell) := Atom.{} Ord.{ord} {} cell\n  ((decide (r0 {op} {lit})), cell)\n\n", camel(&p), args.join(" ")))
}

fn gen_drop_slow(file: &syn::File, prims: &mut Prims) -> Result<String, String> {
    let f = find_fn(file, "SharedBytes", "drop_slow")?;
    let stmts = body_stmts(f.block);
    if stmts.len() < 3 { return Err("drop_slow: too few statements".into()); }
    match let_parts(stmts[0]) { Some((n, e)) if n == "inner" && ts(e) == "self.inner()" => {} _ => return refuse("drop_slow first statement", stmts[0]) }
    let mut k = 1;
    while k < stmts.len() {
        let Stmt::Expr(e, Some(_)) = stmts[k] else { break };
        let Some((p, args, ord)) = atomic_call(e, "inner.count") else { break };
        if p != "load" || !args.is_empty() { return Err(format!("drop_slow: only atomic loads may precede the free, found `{}`", ts(e))); }
        prims.push((p, ord));
        k += 1;
    }
    if k + 2 != stmts.len() { return Err(format!("drop_slow: unsupported statement `{}`", ts(stmts[k]))); }
    let (lname, lexpr) = let_parts(stmts[k]).ok_or("drop_slow: expected `let layout = if ..`")?;
    let Expr::If(i) = lexpr else { return refuse("drop_slow layout statement", lexpr) };
    let Expr::Binary(b) = &*i.cond else { return refuse("drop_slow condition", &i.cond) };
    let field = match ts(&b.left).as_str() { "inner.capacity" => "capacity", "inner.len" => "len", _ => return refuse("drop_slow condition", &i.cond) };
    let op = cmp_op(&b.op).ok_or("drop_slow: comparison operator")?;
    let lit = int_lit(&b.right).ok_or("drop_slow: condition literal")?;
    let names: BTreeMap<String, String> = [("inner.len".to_string(), "len".to_string()), ("inner.capacity".to_string(), "capacity".to_string())].into();
    let branch = |blk: &syn::Block| -> Result<(bool, String), String> {
        let ss = body_stmts(blk);
        let (frees, tail) = match ss.len() {
            1 => (false, ss[0]),
            2 => {
                let s = ts(ss[0]);
                if s != "drop(Vec::from_raw_parts(inner.ptras*mutu8,inner.len,inner.capacity,));" && s != "drop(Vec::from_raw_parts(inner.ptras*mutu8,inner.len,inner.capacity));" { return refuse("drop_slow branch statement", ss[0]); }
                (true, ss[1])
            }
            _ => return Err("drop_slow: unsupported branch".into()),
        };
        let Stmt::Expr(e, None) = tail else { return refuse("drop_slow branch tail", tail) };
        Ok((frees, layout_expr(e, &names)?))
    };
    let (tf, tl) = branch(&i.then_branch)?;
    let els = match &i.else_branch { Some((_, e)) => match &**e { Expr::Block(b) => &b.block, other => return refuse("drop_slow else", other) }, None => return Err("drop_slow: missing else".into()) };
    let (ef, el) = branch(els)?;
    let want = format!("alloc::dealloc(self.ptr.as_ptr().cast(),{lname});");
    if ts(stmts[k + 1]) != want { return refuse("drop_slow dealloc statement", stmts[k + 1]); }
    let sync: Vec<String> = prims.iter().map(|(p, o)| format!("(.{}, .{o})", camel(p))).collect();
    Ok(format!("/-- atomics of `drop_slow`, all executed before the first free -/\ndef SharedBytes_drop_slow_sync : List (AtomPrim × Ord) := [{}]\n\n/-- `drop_slow`: (drops the leaked `Vec` first?, layout handed to `dealloc`) -/\ndef SharedBytes_drop_slow_plan (len capacity : Nat) : Bool × Option Layout :=\n  if {field} {op} {lit} then ({tf}, {tl}) else ({ef}, {el})\n\n", sync.join(", ")))
}

#[derive(Clone, Debug, PartialEq)]
enum Bind { Param, Len, Cap, SrcPtr, InlinePtr(String), Layout(String), Header(String) }

fn gen_ctor(file: &syn::File, name: &str) -> Result<String, String> {
    let f = find_fn(file, "SharedBytes", name)?;
    let ps: Vec<String> = f.sig.inputs.iter().filter_map(|a| match a { syn::FnArg::Typed(t) => Some(ts(&t.pat)), _ => None }).collect();
    if ps.len() != 1 { return Err(format!("{name}: expected one parameter")); }
    let mut env: BTreeMap<String, Bind> = BTreeMap::new();
    env.insert(ps[0].clone(), Bind::Param);
    let stmts = body_stmts(f.block);
    let n = stmts.len();
    let mut alloc_layout: Option<String> = None;
    let mut header: Option<String> = None;
    let mut data_inline: Option<bool> = None;
    let mut copy: Option<String> = None;
    let lean_of = |env: &BTreeMap<String, Bind>, e: &Expr| -> Option<String> {
        if let Some(d) = int_lit(e) { return Some(d); }
        match env.get(&ts(e)) { Some(Bind::Len) => Some("len".into()), Some(Bind::Cap) => Some("capacity".into()), _ => None }
    };
    for (k, st) in stmts.iter().enumerate() {
        if k + 1 == n {
            match st { Stmt::Expr(e, None) if ts(e) == "Self{ptr}" && matches!(env.get("ptr"), Some(Bind::Header(_))) => {} other => return refuse(&format!("{name} tail"), other) }
            continue;
        }
        if let Some((pat, e)) = let_parts(st) {
            let s = ts(e);
            let is = |b: &Bind| matches!(b, Bind::Param);
            let recv_of = |suffix: &str| s.strip_suffix(suffix).and_then(|r| env.get(r)).map(is).unwrap_or(false);
            let b = if recv_of(".len()") { Bind::Len }
                else if recv_of(".capacity()") { Bind::Cap }
                else if recv_of(".as_ptr()") { Bind::SrcPtr }
                else if s.strip_prefix("std::mem::ManuallyDrop::new(").and_then(|r| r.strip_suffix(')')).and_then(|r| env.get(r)).map(is).unwrap_or(false) { Bind::Param }
                else if let Some(l) = s.strip_prefix("alloc::alloc(").and_then(|r| r.strip_suffix(").cast::<Inner>()")) {
                    match env.get(l) { Some(Bind::Layout(t)) => { alloc_layout = Some(t.clone()); Bind::Header(pat.clone()) } _ => return refuse(&format!("{name}: alloc with"), e) }
                }
                else if let Some(h) = s.strip_suffix(".add(1).cast::<u8>()") { match env.get(h) { Some(Bind::Header(_)) => Bind::InlinePtr(h.to_string()), _ => return refuse(&format!("{name}: pointer arithmetic"), e) } }
                else if let Some(h) = s.strip_prefix("NonNull::new(").and_then(|r| r.strip_suffix(").unwrap_or_else(||alloc::handle_alloc_error(layout))")) { match env.get(h) { Some(Bind::Header(x)) => Bind::Header(x.clone()), _ => return refuse(&format!("{name}: NonNull of"), e) } }
                else {
                    let mut names = BTreeMap::new();
                    for (k, v) in &env { if *v == Bind::Len { names.insert(k.clone(), "len".to_string()); } }
                    Bind::Layout(layout_expr(e, &names)?)
                };
            env.insert(pat, b);
            continue;
        }
        let Stmt::Expr(e, Some(_)) = st else { return refuse(&format!("{name} statement"), st) };
        // ptr.as_ptr().write(Inner { .. })
        if let Expr::MethodCall(m) = e {
            if m.method == "write" && ts(&m.receiver) == "ptr.as_ptr()" && matches!(env.get("ptr"), Some(Bind::Header(_))) && m.args.len() == 1 {
                let Expr::Struct(lit) = &m.args[0] else { return refuse(&format!("{name}: header write"), e) };
                if ts(&lit.path) != "Inner" || lit.rest.is_some() || lit.fields.len() != 4 { return refuse(&format!("{name}: header literal"), lit); }
                let mut fields: BTreeMap<String, String> = BTreeMap::new();
                for fv in lit.fields.iter() {
                    let fname = ts(&fv.member);
                    let v = match fname.as_str() {
                        "count" => ts(&fv.expr).strip_prefix("AtomicUsize::new(").and_then(|r| r.strip_suffix(')')).filter(|d| d.chars().all(|c| c.is_ascii_digit())).map(|d| d.to_string()),
                        "ptr" => match env.get(&ts(&fv.expr)) { Some(Bind::InlinePtr(_)) => { data_inline = Some(true); Some(".inline".into()) } Some(Bind::SrcPtr) => { data_inline = Some(false); Some(".vec".into()) } _ => None },
                        "len" | "capacity" => lean_of(&env, &fv.expr),
                        _ => None,
                    };
                    let v = v.ok_or_else(|| format!("{name}: unsupported header field `{}`", ts(fv)))?;
                    fields.insert(fname, v);
                }
                header = Some(format!("{{ count := {}, data := {}, len := {}, capacity := {} }}", fields["count"], fields["ptr"], fields["len"], fields["capacity"]));
                continue;
            }
        }
        // std::ptr::copy_nonoverlapping(bytes.as_ptr(), bytes_ptr, len)
        if let Expr::Call(c) = e {
            if ts(&c.func) == "std::ptr::copy_nonoverlapping" && c.args.len() == 3 {
                let src_ok = ts(&c.args[0]).strip_suffix(".as_ptr()").and_then(|r| env.get(r)).map(|b| *b == Bind::Param).unwrap_or(false);
                let dst_ok = matches!(env.get(&ts(&c.args[1])), Some(Bind::InlinePtr(_)));
                let cnt = lean_of(&env, &c.args[2]);
                if src_ok && dst_ok && cnt.is_some() { copy = cnt; continue; }
            }
        }
        return refuse(&format!("{name} statement"), st);
    }
    let lay = alloc_layout.ok_or(format!("{name}: no alloc"))?;
    let hdr = header.ok_or(format!("{name}: no header write"))?;
    let uses_cap = hdr.contains("capacity := capacity") || hdr.contains("len := capacity");
    let mut out = String::new();
    match (name, data_inline) {
        ("from_slice", Some(true)) => {
            if uses_cap { return Err("from_slice: header uses a capacity".into()); }
            let c = copy.ok_or("from_slice: the bytes are never copied behind the header")?;
            out.push_str(&format!("def SharedBytes_from_slice_layout (len : Nat) : Option Layout := {lay}\n\n"));
            out.push_str(&format!("def SharedBytes_from_slice_header (len : Nat) : HeaderInit := {hdr}\n\n"));
            out.push_str(&format!("/-- number of bytes copied behind the header by `from_slice` -/\ndef SharedBytes_from_slice_copy (len : Nat) : Nat := {c}\n\n"));
        }
        ("from_vec", Some(false)) => {
            if copy.is_some() { return Err("from_vec: unexpected copy".into()); }
            if lay.contains("len") { return Err("from_vec: layout depends on the length".into()); }
            out.push_str(&format!("def SharedBytes_from_vec_layout : Option Layout := {lay}\n\n"));
            out.push_str(&format!("def SharedBytes_from_vec_header (len capacity : Nat) : HeaderInit := {hdr}\n\n"));
        }
        _ => return Err(format!("{name}: data pointer of the wrong kind")),
    }
    Ok(out)
}

fn gen_deref(file: &syn::File) -> Result<String, String> {
    let f = find_fn(file, "Deref for SharedBytes", "deref")?;
    let stmts = body_stmts(f.block);
    if stmts.len() != 2 { return Err("deref: expected 2 statements".into()); }
    match let_parts(stmts[0]) { Some((n, e)) if n == "inner" && ts(e) == "self.inner()" => {} _ => return refuse("deref first statement", stmts[0]) }
    let Stmt::Expr(e, None) = stmts[1] else { return refuse("deref tail", stmts[1]) };
    let s = ts(strip_unsafe(e));
    let inner = s.strip_prefix("std::slice::from_raw_parts(").and_then(|r| r.strip_suffix(')')).ok_or_else(|| format!("deref: unsupported `{s}`"))?;
    let (a, b) = inner.split_once(',').ok_or("deref args")?;
    let fld = |x: &str| x.strip_prefix("inner.").filter(|f| ["ptr", "len", "capacity", "count"].contains(f)).map(|f| format!(".{f}"));
    let (a, b) = (fld(a).ok_or("deref: first argument")?, fld(b).ok_or("deref: second argument")?);
    Ok(format!("/-- `deref` = `slice::from_raw_parts(inner.<fst>, inner.<snd>)` -/\ndef SharedBytes_deref : HeaderField × HeaderField := ({a}, {b})\n\n"))
}

fn classify_ctor_call(e: &Expr, input: &str) -> Result<&'static str, String> {
    let s = ts(e);
    if s == format!("SharedBytes::from_slice({input})") { return Ok(".fromSlice"); }
    if s == format!("SharedBytes::from_vec({input})") || s == format!("SharedBytes::from_vec({input}.into_vec())") { return Ok(".fromVec"); }
    if s == format!("{input}.clone()") { return Ok(".clone"); }
    refuse("construction path", e)
}

fn gen_from_table(file: &syn::File) -> Result<String, String> {
    let mut rows: Vec<(String, &'static str)> = vec![];
    for it in &file.items {
        let Item::Impl(im) = it else { continue };
        let Some((_, tr, _)) = &im.trait_ else { continue };
        if type_name(&im.self_ty) != "SharedBytes" { continue; }
        let seg = tr.segments.last().unwrap();
        let tname = seg.ident.to_string();
        if tname != "From" && tname != "FromIterator" { continue; }
        let arg = ts(&seg.arguments);
        let f = im.items.iter().find_map(|i| match i { syn::ImplItem::Fn(f) => Some(f), _ => None }).ok_or("From impl without fn")?;
        let param = f.sig.inputs.iter().find_map(|a| match a { syn::FnArg::Typed(t) => Some(ts(&t.pat)), _ => None }).ok_or("From fn without parameter")?;
        let stmts = body_stmts(&f.block);
        if tname == "FromIterator" {
            if arg != "<u8>" || stmts.len() != 2 { return Err("FromIterator impl: unsupported shape".into()); }
            match let_parts(stmts[0]) { Some((n, e)) if ts(e) == format!("{param}.into_iter().collect()") => {
                let Stmt::Expr(e2, None) = stmts[1] else { return refuse("from_iter tail", stmts[1]) };
                rows.push(("iter".into(), classify_ctor_call(e2, &n)?));
            } _ => return refuse("from_iter first statement", stmts[0]) }
            continue;
        }
        if stmts.len() != 1 { return Err(format!("From{arg}: expected a single expression")); }
        let Stmt::Expr(e, None) = stmts[0] else { return refuse("From body", stmts[0]) };
        match arg.as_str() {
            "<&[u8]>" => rows.push(("slice".into(), classify_ctor_call(e, &param)?)),
            "<Vec<u8>>" => rows.push(("vec".into(), classify_ctor_call(e, &param)?)),
            "<Box<[u8]>>" => rows.push(("boxed".into(), classify_ctor_call(e, &param)?)),
            "<&SharedBytes>" => rows.push(("sharedRef".into(), classify_ctor_call(e, &param)?)),
            "<Cow<'_,[u8]>>" => {
                let Expr::Match(m) = e else { return refuse("From<Cow> body", e) };
                if ts(&m.expr) != param || m.arms.len() != 2 { return refuse("From<Cow> match", m); }
                for arm in &m.arms {
                    if arm.guard.is_some() { return refuse("From<Cow> arm", &arm.pat); }
                    let p = ts(&arm.pat);
                    let (which, var) = if let Some(v) = p.strip_prefix("Cow::Borrowed(").and_then(|r| r.strip_suffix(')')) { ("cowBorrowed", v) }
                        else if let Some(v) = p.strip_prefix("Cow::Owned(").and_then(|r| r.strip_suffix(')')) { ("cowOwned", v) } else { return refuse("From<Cow> arm", &arm.pat) };
                    rows.push((which.into(), classify_ctor_call(&arm.body, var)?));
                }
            }
            other => return Err(format!("unknown construction path From{other} for SharedBytes")),
        }
    }
    let order = ["slice", "vec", "boxed", "cowBorrowed", "cowOwned", "iter", "sharedRef"];
    let mut lines = vec![];
    for o in order {
        let hits: Vec<_> = rows.iter().filter(|r| r.0 == o).collect();
        if hits.len() != 1 { return Err(format!("construction path `{o}`: found {} impls", hits.len())); }
        lines.push(format!("  (.{o}, {})", hits[0].1));
    }
    Ok(format!("/-- public construction path → constructor it bottoms out in -/\ndef bytesFrom : List (BytesSrc × BytesCtor) := [\n{}\n]\n\n", lines.join(",\n")))
}

// ------------------------------------------------------------------ string.rs

struct LitFinder { hits: usize }
impl<'ast> syn::visit::Visit<'ast> for LitFinder {
    fn visit_expr_struct(&mut self, n: &'ast syn::ExprStruct) {
        let p = ts(&n.path);
        if p == "SharedString" || p == "Self" { self.hits += 1; }
        syn::visit::visit_expr_struct(self, n);
    }
}

fn count_lits(b: &syn::Block) -> usize { let mut f = LitFinder { hits: 0 }; syn::visit::Visit::visit_block(&mut f, b); f.hits }

fn gen_string_sites(file: &syn::File) -> Result<String, String> {
    let mut rows: Vec<(&'static str, &'static str)> = vec![];
    let mut visit_fn = |owner: String, f: &syn::ImplItemFn| -> Result<(), String> {
        let n = count_lits(&f.block);
        if n == 0 { return Ok(()); }
        let name = f.sig.ident.to_string();
        let param = f.sig.inputs.iter().find_map(|a| match a { syn::FnArg::Typed(t) => Some((ts(&t.pat), ts(&t.ty))), _ => None });
        let Some((p, pty)) = param else { return Err(format!("string: `{owner}::{name}` builds a SharedString without a parameter")) };
        if n != 1 { return Err(format!("string: `{owner}::{name}` builds {n} SharedStrings")); }
        let stmts = body_stmts(&f.block);
        let body: Vec<String> = stmts.iter().map(|s| ts(*s)).collect();
        let row = match (owner.as_str(), name.as_str()) {
            ("SharedString", "from_utf8") => {
                let ok = pty == "SharedBytes" && body.len() == 2 && body[0] == format!("let_=str::from_utf8(&{p})?;") && body[1] == format!("Ok(SharedString{{{p}}})") && p == "bytes";
                ("fromUtf8", if ok { "validated" } else { "unknown" })
            }
            ("SharedString", "from_utf8_unchecked") => {
                let ok = f.sig.unsafety.is_some() && body.len() == 1 && body[0] == format!("SharedString{{{p}}}") && p == "bytes";
                ("fromUtf8Unchecked", if ok { "unsafeFn" } else { "unknown" })
            }
            ("From<String> for SharedString", "from") => {
                let ok = pty == "String" && body.len() == 2 && body[0] == format!("letbytes=SharedBytes::from_vec({p}.into_bytes());") && body[1] == "SharedString{bytes}";
                ("fromString", if ok { "stringBytes" } else { "unknown" })
            }
            ("From<&str> for SharedString", "from") => {
                let ok = pty == "&str" && body.len() == 2 && body[0] == format!("letbytes=SharedBytes::from_slice({p}.as_bytes());") && body[1] == "SharedString{bytes}";
                ("fromStr", if ok { "strBytes" } else { "unknown" })
            }
            _ => return Err(format!("string: `{owner}::{name}` builds a SharedString directly (unknown site)")),
        };
        rows.push(row);
        Ok(())
    };
    fn walk(items: &[Item], visit: &mut dyn FnMut(String, &syn::ImplItemFn) -> Result<(), String>) -> Result<(), String> {
        for it in items {
            match it {
                Item::Impl(im) => {
                    let ty = type_name(&im.self_ty);
                    let owner = match &im.trait_ { Some((_, p, _)) => format!("{} for {ty}", ts(p.segments.last().unwrap())), None => ty };
                    for ii in &im.items {
                        if let syn::ImplItem::Fn(f) = ii {
                            visit(owner.clone(), f)?;
                            // impls nested in function bodies (the serde visitors)
                            let nested: Vec<Item> = f.block.stmts.iter().filter_map(|s| match s { Stmt::Item(i) => Some(i.clone()), _ => None }).collect();
                            walk(&nested, visit)?;
                        }
                    }
                }
                Item::Fn(f) => { if count_lits(&f.block) > 0 { return Err(format!("string: free function `{}` builds a SharedString", f.sig.ident)); } }
                Item::Mod(m) => { if let Some((_, items)) = &m.content { walk(items, visit)?; } }
                _ => {}
            }
        }
        Ok(())
    }
    walk(&file.items, &mut visit_fn)?;
    let order = ["fromUtf8", "fromUtf8Unchecked", "fromString", "fromStr"];
    let mut lines = vec![];
    for o in order {
        let hits: Vec<_> = rows.iter().filter(|r| r.0 == o).collect();
        if hits.len() != 1 { return Err(format!("string: site `{o}` found {} times", hits.len())); }
        lines.push(format!("  (.{o}, .{})", hits[0].1));
    }
    Ok(format!("/-- every `SharedString {{ bytes }}` literal in string.rs (serde visitors included): (function, why the bytes are UTF-8) -/\ndef stringSites : List (StringFn × StringSrc) := [\n{}\n]\n\n", lines.join(",\n")))
}

struct CallCounter { n: usize, in_string_rs: bool }
impl<'ast> syn::visit::Visit<'ast> for CallCounter {
    fn visit_expr_path(&mut self, p: &'ast syn::ExprPath) {
        let s = ts(&p.path);
        if s.ends_with("SharedString::from_utf8_unchecked") || (self.in_string_rs && s == "Self::from_utf8_unchecked") { self.n += 1; }
    }
    fn visit_expr_method_call(&mut self, m: &'ast syn::ExprMethodCall) {
        // `from_utf8_unchecked` is an associated function without receiver; a method call of that
        // name cannot be it. Keep walking.
        syn::visit::visit_expr_method_call(self, m);
    }
}

fn count_unchecked_calls(ctx: &mut Ctx) -> Result<usize, String> {
    fn rs_files(dir: &std::path::Path, out: &mut Vec<std::path::PathBuf>) -> Result<(), String> {
        for e in std::fs::read_dir(dir).map_err(|e| format!("cannot list {}: {e}", dir.display()))? {
            let p = e.map_err(|e| e.to_string())?.path();
            if p.is_dir() { rs_files(&p, out)?; } else if p.extension().map(|x| x == "rs").unwrap_or(false) { out.push(p); }
        }
        Ok(())
    }
    let mut files = vec![];
    rs_files(&ctx.repo.join("src"), &mut files)?;
    files.sort();
    let mut n = 0;
    for p in files {
        let src = std::fs::read_to_string(&p).map_err(|e| format!("cannot read {}: {e}", p.display()))?;
        let f = syn::parse_file(&src).map_err(|e| format!("cannot parse {}: {e}", p.display()))?;
        let mut c = CallCounter { n: 0, in_string_rs: p.ends_with("utils/string.rs") };
        syn::visit::Visit::visit_file(&mut c, &f);
        n += c.n;
    }
    Ok(n)
}

fn gen_cmp_table(file: &syn::File, ty: &str, lean_name: &str) -> Result<String, String> {
    let mut rows: BTreeMap<&'static str, &'static str> = BTreeMap::new();
    for it in &file.items {
        let Item::Impl(im) = it else { continue };
        let Some((_, tr, _)) = &im.trait_ else { continue };
        if type_name(&im.self_ty) != ty { continue; }
        let seg = tr.segments.last().unwrap();
        if !seg.arguments.is_empty() { continue; } // comparisons with other types: covered by the harness oracle
        let tname = seg.ident.to_string();
        for ii in &im.items {
            let syn::ImplItem::Fn(f) = ii else { continue };
            let key = match (tname.as_str(), f.sig.ident.to_string().as_str()) { ("PartialEq", "eq") => "eq", ("PartialOrd", "partial_cmp") => "partialCmp", ("Ord", "cmp") => "cmp", ("Hash", "hash") => "hash", _ => continue };
            let stmts = body_stmts(&f.block);
            let body = if stmts.len() == 1 { ts(stmts[0]).trim_end_matches(';').to_string() } else { String::new() };
            let hasher = f.sig.inputs.iter().filter_map(|a| match a { syn::FnArg::Typed(t) => Some(ts(&t.pat)), _ => None }).next().unwrap_or_default();
            let d = match key {
                "eq" if body == "**self==**other" => "slices",
                "cmp" if body == "(**self).cmp(other)" || body == "(**self).cmp(&**other)" => "slices",
                "partialCmp" if body == "Some(self.cmp(other))" => "viaSelfImpl",
                "partialCmp" if body == "Some((**self).cmp(other))" || body == "(**self).partial_cmp(&**other)" => "slices",
                "hash" if body == format!("self.as_ref().hash({hasher})") && ty == "SharedBytes" => "slices",
                "hash" if body == format!("(**self).hash({hasher})") => "slices",
                _ => "other",
            };
            if rows.insert(key, d).is_some() { return Err(format!("{ty}: two impls of {key}")); }
        }
    }
    let mut lines = vec![];
    for k in ["eq", "partialCmp", "cmp", "hash"] {
        let d = rows.get(k).ok_or(format!("{ty}: no impl of {k}"))?;
        lines.push(format!("  (.{k}, .{d})"));
    }
    Ok(format!("def {lean_name} : List (CmpImpl × Delegation) := [\n{}\n]\n\n", lines.join(",\n")))
}

pub fn gen(ctx: &mut Ctx) -> Result<String, String> {
    let bytes = ctx.file("src/utils/bytes.rs")?.clone();
    let string = ctx.file("src/utils/string.rs")?.clone();
    let mut out = String::from("import AmVerif.Model.BytesBase\n\nnamespace AmVerif.Gen\nopen AmVerif.Model\nset_option linter.unusedVariables false\n\n");
    out.push_str(&gen_inner(&bytes)?);
    out.push_str(&gen_get_inner_layout(&bytes)?);
    let (mut pc, mut pd, mut ps) = (vec![], vec![], vec![]);
    out.push_str(&gen_clone(&bytes, &mut pc)?);
    out.push_str(&gen_drop(&bytes, &mut pd)?);
    out.push_str(&gen_drop_slow(&bytes, &mut ps)?);
    out.push_str(&gen_ctor(&bytes, "from_slice")?);
    out.push_str(&gen_ctor(&bytes, "from_vec")?);
    out.push_str(&gen_deref(&bytes)?);
    let row = |p: &Prims| p.iter().map(|(a, o)| format!("(.{}, .{o})", camel(a))).collect::<Vec<_>>().join(", ");
    out.push_str(&format!("/-- (function, atomic primitives executed on `count`, in order, with their memory ordering) -/\ndef bytesAtomics : List (BytesFn × List (AtomPrim × Ord)) := [\n  (.clone, [{}]),\n  (.drop, [{}]),\n  (.dropSlow, [{}])\n]\n\n", row(&pc), row(&pd), row(&ps)));
    out.push_str(&gen_from_table(&bytes)?);
    out.push_str(&gen_string_sites(&string)?);
    let n = count_unchecked_calls(ctx)?;
    out.push_str(&format!("/-- calls of `SharedString::from_utf8_unchecked` anywhere under src/ -/\ndef stringUncheckedCalls : Nat := {n}\n\n"));
    out.push_str("/-- comparison / hash impls between two values of the type → how they reach the data -/\n");
    out.push_str(&gen_cmp_table(&bytes, "SharedBytes", "bytesCmp")?);
    out.push_str(&gen_cmp_table(&string, "SharedString", "stringCmp")?);
    out.push_str("end AmVerif.Gen\n");
    Ok(out)
}
