//! `register_file` of src/source/zip.rs and src/source/tar.rs → `Gen/Archive.lean`.
//!
//! The body is linearised into the effect tokens of `Model/ArchiveSkel.lean`: builder calls,
//! the component walk with its per-kind actions, the `files` / `dirs` map effects with their
//! guard and the `register_dir` calls, in source order, split at `if <is file> {..} else {..}`
//! (or the older `let entry = if ..`). The helper `register_dir` is linearised into `DirTok`s,
//! and whether `create` registers the root directory before the members is recorded; so are the
//! kind tests of `FileSystem::{exists, read, read_dir}` (src/source/filesystem.rs). Statements that
//! only talk to the container API (`file.…`, `path`, logging) are skipped; a statement that
//! mentions `files`, `dirs`, `id_builder`, `id`, `ext`, `desc`, `parent_id` or `entry` in a form
//! not listed here is refused.

use crate::{find::find_fn, Ctx};
use quote::ToTokens;
use syn::{Expr, Stmt};

const TRACKED: &[&str] = &["files", "dirs", "id_builder", "id", "ext", "desc", "parent_id", "entry"];

fn flat(t: &dyn ToTokens) -> String { t.to_token_stream().to_string().replace([' ', '\n'], "") }

fn mentions_tracked(t: &dyn ToTokens) -> bool {
    fn walk(ts: proc_macro2::TokenStream) -> bool {
        for tt in ts {
            match tt {
                proc_macro2::TokenTree::Ident(i) => { if TRACKED.contains(&i.to_string().as_str()) { return true; } }
                proc_macro2::TokenTree::Group(g) => { if walk(g.stream()) { return true; } }
                _ => {}
            }
        }
        false
    }
    walk(t.to_token_stream())
}

fn refuse<T>(which: &str, what: &str, t: &dyn ToTokens) -> Result<T, String> {
    Err(format!("{which}::register_file: unsupported {what}: `{}`", t.to_token_stream()))
}

fn act_of(which: &str, body: &Expr) -> Result<&'static str, String> {
    let s = flat(body);
    if s.starts_with("id_builder.push(") && s.ends_with(")?") && s.contains("to_str()?") { Ok(".push") }
    else if s == "id_builder.pop()?" { Ok(".pop") }
    else if s == "continue" { Ok(".skip") }
    else if s == "returnNone" { Ok(".fail") }
    else { refuse(which, "component action", body) }
}

fn walk_parent(which: &str, f: &syn::ExprForLoop) -> Result<String, String> {
    if flat(&f.expr) != "path.parent()?.components()" { return refuse(which, "loop range", &f.expr); }
    if f.body.stmts.len() != 1 { return refuse(which, "loop body", &f.body); }
    let m = match &f.body.stmts[0] { Stmt::Expr(Expr::Match(m), _) => m, other => return refuse(which, "loop body", other) };
    if flat(&m.expr) != flat(&f.pat) { return refuse(which, "match scrutinee", &m.expr); }
    let (mut n, mut p, mut c, mut o) = (None, None, None, None);
    for arm in &m.arms {
        if arm.guard.is_some() { return refuse(which, "match guard", &arm.pat); }
        let pat = flat(&arm.pat);
        let a = act_of(which, &arm.body)?;
        let slot = if pat.ends_with("Component::Normal(s)") { &mut n }
            else if pat.ends_with("Component::ParentDir") { &mut p }
            else if pat.ends_with("Component::CurDir") { &mut c }
            else if pat == "_" { &mut o }
            else { return refuse(which, "component pattern", &arm.pat) };
        if slot.is_some() { return refuse(which, "duplicate component pattern", &arm.pat); }
        *slot = Some(a);
    }
    match (n, p, c, o) {
        (Some(n), Some(p), Some(c), Some(o)) => Ok(format!(".walkParent {n} {p} {c} {o}")),
        _ => refuse(which, "component match (an arm is missing)", m),
    }
}

fn branch(which: &str, b: &syn::Block, is_file: bool) -> Result<Vec<String>, String> {
    let mut toks = vec![];
    let n = b.stmts.len();
    for (k, st) in b.stmts.iter().enumerate() {
        if !mentions_tracked(st) { continue; }
        let s = flat(st);
        match st {
            Stmt::Local(_) if s.starts_with("letext=") && s.contains("extension_of(") && (s.ends_with("path)?.into();")) => toks.push(".extOf".to_string()),
            Stmt::Local(_) if s == "letdesc=FileDesc(id,ext);" => toks.push(".descIdExt".into()),
            Stmt::Expr(Expr::MethodCall(m), Some(_)) if flat(&m.receiver) == "files" && m.method == "insert" => {
                if m.args.len() != 2 || flat(&m.args[0]) != "desc.clone()" || mentions_tracked(&m.args[1]) { return refuse(which, "files.insert arguments", m); }
                toks.push(".filesInsertDesc".into());
            }
            Stmt::Expr(Expr::If(i), _) if flat(&i.cond) == "!dirs.contains_key(&id)" => {
                if i.else_branch.is_some() || i.then_branch.stmts.len() != 1 || flat(&i.then_branch.stmts[0]) != "dirs.insert(id.clone(),Vec::new());" { return refuse(which, "guarded dirs.insert", i); }
                toks.push(".dirsInsertEmptyIfAbsent".into());
            }
            Stmt::Expr(Expr::MethodCall(_), Some(_)) if s == "dirs.insert(id.clone(),Vec::new());" => toks.push(".dirsInsertEmpty".into()),
            Stmt::Expr(Expr::Call(_), Some(_)) if s == "register_dir(dirs,parent_id.clone());" && is_file => toks.push(".registerDirParent".into()),
            Stmt::Expr(Expr::Call(_), Some(_)) if s == "register_dir(dirs,id);" && !is_file && k + 1 == n => toks.push(".registerDirId".into()),
            Stmt::Expr(Expr::MethodCall(_), Some(_)) if s == "dirs.entry(parent_id).or_default().push(OwnedEntry::File(desc));" && is_file && k + 1 == n => toks.push(".dirsPushParentFileDesc".into()),
            Stmt::Expr(e, None) if k + 1 == n && s == "OwnedEntry::File(desc)" && is_file => { let _ = e; toks.push(".entryFileDesc".into()) }
            Stmt::Expr(e, None) if k + 1 == n && s == "OwnedEntry::Dir(id)" && !is_file => { let _ = e; toks.push(".entryDirId".into()) }
            other => return refuse(which, "statement in entry branch", other),
        }
    }
    Ok(toks)
}

struct Sk { pre: Vec<String>, file: Vec<String>, dir: Vec<String>, post: Vec<String> }

fn closure_body<'a>(which: &str, e: &'a Expr) -> Result<&'a syn::Block, String> {
    // (|| { .. })().is_some()
    let mc = match e { Expr::MethodCall(m) if m.method == "is_some" => m, _ => return refuse(which, "`ok` initialiser", e) };
    let call = match &*mc.receiver { Expr::Call(c) if c.args.is_empty() => c, other => return refuse(which, "`ok` initialiser", other) };
    let mut f = &*call.func;
    while let Expr::Paren(p) = f { f = &p.expr; }
    match f {
        Expr::Closure(c) if c.inputs.is_empty() => match &*c.body { Expr::Block(b) => Ok(&b.block), other => refuse(which, "closure body", other) },
        other => refuse(which, "`ok` initialiser", other),
    }
}

fn skeleton(which: &str, file: &syn::File) -> Result<Sk, String> {
    let f = find_fn(file, "", "register_file").map_err(|e| format!("{which}: {e}"))?;
    let mut sk = Sk { pre: vec![], file: vec![], dir: vec![], post: vec![] };
    let mut seen_closure = false;
    for st in &f.block.stmts {
        let s = flat(st);
        if s == "id_builder.reset();" && !seen_closure { sk.pre.push(".reset".into()); continue; }
        if let Stmt::Local(l) = st {
            if flat(&l.pat) == "ok" {
                if seen_closure { return refuse(which, "second `ok` closure", st); }
                seen_closure = true;
                let init = l.init.as_ref().ok_or(format!("{which}: `let ok` without initialiser"))?;
                let body = closure_body(which, &init.expr)?;
                let mut after_entry = false;
                let n = body.stmts.len();
                for (k, cs) in body.stmts.iter().enumerate() {
                    let c = flat(cs);
                    if k + 1 == n && c == "Some(())" { continue; }
                    if !mentions_tracked(cs) { continue; }
                    let cur = if after_entry { &mut sk.post } else { &mut sk.pre };
                    match cs {
                        Stmt::Expr(Expr::ForLoop(fl), _) => cur.push(walk_parent(which, fl)?),
                        Stmt::Local(_) if c == "letparent_id=id_builder.join();" => cur.push(".joinParent".into()),
                        Stmt::Local(_) if c == "letid=id_builder.join();" => cur.push(".joinId".into()),
                        Stmt::Expr(_, Some(_)) if c == "id_builder.push(path.file_stem()?.to_str()?)?;" => cur.push(".pushStem".into()),
                        Stmt::Local(l2) if flat(&l2.pat) == "entry" => {
                            if after_entry { return refuse(which, "second `entry`", cs); }
                            let init = l2.init.as_ref().ok_or(format!("{which}: `let entry` without initialiser"))?;
                            let i = match &*init.expr { Expr::If(i) => i, other => return refuse(which, "`entry` initialiser", other) };
                            let cond = flat(&i.cond);
                            if !(cond.starts_with("file.") && cond.ends_with("is_file()")) || cond.contains('!') { return refuse(which, "is-file test", &i.cond); }
                            sk.file = branch(which, &i.then_branch, true)?;
                            let eb = match &i.else_branch { Some((_, e)) => match &**e { Expr::Block(b) => &b.block, other => return refuse(which, "else branch", other) }, None => return refuse(which, "missing else branch", i) };
                            sk.dir = branch(which, eb, false)?;
                            after_entry = true;
                        }
                        Stmt::Expr(_, Some(_)) if c == "dirs.entry(parent_id).or_default().push(entry);" => cur.push(".dirsPushParentEntry".into()),
                        Stmt::Expr(Expr::If(i), _) => {
                            // the repaired form: no `entry` value, each branch registers by itself
                            if after_entry { return refuse(which, "second is-file split", cs); }
                            let cond = flat(&i.cond);
                            if !(cond.starts_with("file.") && cond.ends_with("is_file()")) || cond.contains('!') { return refuse(which, "is-file test", &i.cond); }
                            sk.file = branch(which, &i.then_branch, true)?;
                            let eb = match &i.else_branch { Some((_, e)) => match &**e { Expr::Block(b) => &b.block, other => return refuse(which, "else branch", other) }, None => return refuse(which, "missing else branch", i) };
                            sk.dir = branch(which, eb, false)?;
                            after_entry = true;
                        }
                        other => return refuse(which, "statement in the registration closure", other),
                    }
                }
                if !after_entry { return Err(format!("{which}::register_file: no `if <is file> .. else ..` split")); }
                continue;
            }
        }
        if mentions_tracked(st) { return refuse(which, "statement", st); }
    }
    if !seen_closure { return Err(format!("{which}::register_file: registration closure not found")); }
    Ok(sk)
}

fn lean_list(v: &[String]) -> String { format!("[{}]", v.join(", ")) }

fn emit(name: &str, sk: &Sk) -> String {
    format!("def {name} : Skel where\n  pre := {}\n  fileBranch := {}\n  dirBranch := {}\n  post := {}\n\n",
        lean_list(&sk.pre), lean_list(&sk.file), lean_list(&sk.dir), lean_list(&sk.post))
}

/// `register_dir` → (`pre`, `withParent`) token lists; a source without the helper gives the
/// empty skeleton (then no `register_file` token refers to it either).
fn dir_skeleton(which: &str, file: &syn::File) -> Result<(Vec<String>, Vec<String>), String> {
    let f = match find_fn(file, "", "register_dir") {
        Ok(f) => f,
        Err(e) if e.contains("not found") => return Ok((vec![], vec![])),
        Err(e) => return Err(format!("{which}: {e}")),
    };
    let params: Vec<String> = f.sig.inputs.iter().map(|a| match a { syn::FnArg::Typed(t) => flat(&t.pat), other => flat(other) }).collect();
    if params != ["dirs", "id"] { return refuse(which, "register_dir parameters", f.sig); }
    let (mut pre, mut with_parent) = (vec![], vec![]);
    let n = f.block.stmts.len();
    for (k, st) in f.block.stmts.iter().enumerate() {
        let s = flat(st);
        match st {
            Stmt::Expr(Expr::If(i), _) if flat(&i.cond) == "dirs.contains_key(&id)" => {
                if i.else_branch.is_some() || i.then_branch.stmts.len() != 1 || flat(&i.then_branch.stmts[0]) != "return;" { return refuse(which, "register_dir guard", i); }
                pre.push(".returnIfPresent".to_string());
            }
            Stmt::Expr(Expr::MethodCall(_), Some(_)) if s == "dirs.insert(id.clone(),Vec::new());" => pre.push(".insertEmpty".into()),
            Stmt::Expr(Expr::If(i), _) if k + 1 == n && flat(&i.cond) == "letSome(parent_id)=DirEntry::Directory(&id).parent_id()" => {
                if i.else_branch.is_some() { return refuse(which, "register_dir: else branch of the parent test", i); }
                for ps in &i.then_branch.stmts {
                    let c = flat(ps);
                    if c == "letparent_id=SharedString::from(parent_id);" { continue; }
                    else if c == "register_dir(dirs,parent_id.clone());" { with_parent.push(".recurseParent".to_string()); }
                    else if c == "dirs.entry(parent_id).or_default().push(OwnedEntry::Dir(id));" { with_parent.push(".pushDirIntoParent".to_string()); }
                    else { return refuse(which, "statement of register_dir (parent part)", ps); }
                }
            }
            other => return refuse(which, "statement of register_dir", other),
        }
    }
    Ok((pre, with_parent))
}

/// Does `create` register the root directory (`register_dir(&mut dirs, "")`) before any member?
fn create_registers_root(which: &str, file: &syn::File, ty: &str) -> Result<bool, String> {
    let f = find_fn(file, ty, "create").map_err(|e| format!("{which}: {e}"))?;
    let mut seen_dirs = false;
    for st in &f.block.stmts {
        let s = flat(st);
        if s == "letmutdirs=HashMap::new();" { seen_dirs = true; continue; }
        if matches!(st, Stmt::Expr(Expr::ForLoop(_), _)) { return Ok(false); }
        if s.contains("register_dir") {
            if seen_dirs && s == "register_dir(&mutdirs,SharedString::from(\"\"));" { return Ok(true); }
            return refuse(which, "use of register_dir in create", st);
        }
        if s.contains("dirs.") || s.contains("register_file") { return refuse(which, "use of dirs in create before the member loop", st); }
    }
    Err(format!("{which}::create: member loop not found"))
}

/// Kind tests of `FileSystem`: (exists checks the kind, read maps a non-file to NotFound,
/// read_dir maps a non-directory to NotFound).
fn fs_facts(file: &syn::File) -> Result<(bool, bool, bool), String> {
    let which = "filesystem";
    let ex = find_fn(file, "Source for FileSystem", "exists")?;
    let exb = flat(ex.block);
    let exists_kind = if exb == "{self.path_of(entry).exists()}" { false }
        else if exb == "{letpath=self.path_of(entry);matchentry{DirEntry::File(..)=>path.is_file(),DirEntry::Directory(_)=>path.is_dir(),}}" { true }
        else { return refuse(which, "body of FileSystem::exists", ex.block) };
    let re = find_fn(file, "", "read_error")?;
    let params: Vec<String> = re.sig.inputs.iter().map(|a| match a { syn::FnArg::Typed(t) => flat(&t.pat), other => flat(other) }).collect();
    let reb = flat(re.block);
    let maps = if params == ["err", "path"] && reb.ends_with("io::Error::new(err.kind(),Error{err,path})}") { false }
        else if params == ["err", "right_kind", "path"] && reb.ends_with("letkind=ifright_kind{err.kind()}else{io::ErrorKind::NotFound};io::Error::new(kind,Error{err,path})}") { true }
        else { return refuse(which, "read_error", re.sig) };
    let rd = flat(find_fn(file, "Source for FileSystem", "read")?.block);
    let ls = flat(find_fn(file, "Source for FileSystem", "read_dir")?.block);
    if !rd.starts_with("{letpath=self.path_of(DirEntry::File(id,ext));matchfs::read(&path){") { return Err("filesystem: unsupported body of FileSystem::read".into()); }
    if !ls.starts_with("{letdir_path=self.path_of(DirEntry::Directory(id));letentries=fs::read_dir(&dir_path).map_err(") { return Err("filesystem: unsupported body of FileSystem::read_dir".into()); }
    let (rd_nf, ls_nf) = if maps {
        let a = rd.contains("Err(err)=>Err(read_error(err,path.is_file(),path)),");
        let b = ls.contains(".map_err(|err|read_error(err,dir_path.is_dir(),dir_path))?;");
        if !a && !rd.contains("Err(err)=>Err(read_error(err,true,path)),") { return Err("filesystem: unsupported error mapping in FileSystem::read".into()); }
        if !b && !ls.contains(".map_err(|err|read_error(err,true,dir_path))?;") { return Err("filesystem: unsupported error mapping in FileSystem::read_dir".into()); }
        (a, b)
    } else {
        if !rd.contains("Err(err)=>Err(read_error(err,path)),") { return Err("filesystem: unsupported error mapping in FileSystem::read".into()); }
        if !ls.contains(".map_err(|err|read_error(err,dir_path))?;") { return Err("filesystem: unsupported error mapping in FileSystem::read_dir".into()); }
        (false, false)
    };
    Ok((exists_kind, rd_nf, ls_nf))
}

fn emit_dir(name: &str, sk: &(Vec<String>, Vec<String>)) -> String {
    format!("def {name} : DirSkel where\n  pre := {}\n  withParent := {}\n\n", lean_list(&sk.0), lean_list(&sk.1))
}

/// Does `Source::read` of the archive type work on its own clone of the reader?
fn read_clones(file: &syn::File, ty: &str, field: &str) -> Result<bool, String> {
    let f = find_fn(file, &format!("Source for {ty}"), "read")?;
    let body = flat(f.block);
    Ok(body.contains(&format!("=self.{field}.clone();")))
}

pub fn gen(ctx: &mut Ctx) -> Result<String, String> {
    let zip = ctx.file("src/source/zip.rs")?.clone();
    let tar = ctx.file("src/source/tar.rs")?.clone();
    let mut out = String::from("import AmVerif.Model.ArchiveSkel\n\nnamespace AmVerif.Gen.Archive\nopen AmVerif.Model.ArchiveSkel\n\n");
    out.push_str("/-- effect skeleton of `register_file` in src/source/zip.rs -/\n");
    out.push_str(&emit("zipRegister", &skeleton("zip", &zip)?));
    out.push_str("/-- effect skeleton of `register_file` in src/source/tar.rs -/\n");
    out.push_str(&emit("tarRegister", &skeleton("tar", &tar)?));
    out.push_str("/-- effect skeleton of `register_dir` in src/source/zip.rs (empty: no such helper) -/\n");
    out.push_str(&emit_dir("zipRegisterDir", &dir_skeleton("zip", &zip)?));
    out.push_str("/-- effect skeleton of `register_dir` in src/source/tar.rs (empty: no such helper) -/\n");
    out.push_str(&emit_dir("tarRegisterDir", &dir_skeleton("tar", &tar)?));
    out.push_str(&format!("/-- `Zip::create` registers the root directory before the members -/\ndef zipCreateRegistersRoot : Bool := {}\n", create_registers_root("zip", &zip, "Zip")?));
    out.push_str(&format!("/-- `Tar::create` registers the root directory before the members -/\ndef tarCreateRegistersRoot : Bool := {}\n", create_registers_root("tar", &tar, "Tar")?));
    let fsf = ctx.file("src/source/filesystem.rs")?.clone();
    let (ek, rnf, lnf) = fs_facts(&fsf)?;
    out.push_str(&format!("/-- `FileSystem::exists` answers `is_file()` / `is_dir()` according to the kind of the entry (false: `Path::exists`) -/\ndef fsExistsChecksKind : Bool := {ek}\n"));
    out.push_str(&format!("/-- `FileSystem::read` reports `NotFound` when the path is not a file -/\ndef fsReadNonFileNotFound : Bool := {rnf}\n"));
    out.push_str(&format!("/-- `FileSystem::read_dir` reports `NotFound` when the path is not a directory -/\ndef fsReadDirNonDirNotFound : Bool := {lnf}\n"));
    out.push_str(&format!("/-- `Zip::read` clones `self.archive` before reading -/\ndef zipReadClonesReader : Bool := {}\n", read_clones(&zip, "Zip", "archive")?));
    out.push_str(&format!("/-- `Tar::read` clones `self.reader` before seeking -/\ndef tarReadClonesReader : Bool := {}\n", read_clones(&tar, "Tar", "reader")?));
    out.push_str("\nend AmVerif.Gen.Archive\n");
    Ok(out)
}
