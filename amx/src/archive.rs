//! `register_file` of src/source/zip.rs and src/source/tar.rs → `Gen/Archive.lean`.
//!
//! The body is linearised into the effect tokens of `Model/ArchiveSkel.lean`: builder calls,
//! the component walk with its per-kind actions, the `files` / `dirs` map effects with their
//! guard, in source order, split at `let entry = if <is file> {..} else {..}`. Statements that
//! only talk to the container API (`file.…`, `path`, logging) are skipped; a statement that
//! mentions `files`, `dirs`, `id_builder`, `id`, `ext`, `desc`, `parent_id` or `entry` in a form
//! not listed here is refused.

use crate::{find::find_fn, Ctx};
use quote::ToTokens;
use syn::{Expr, Stmt};

const TRACKED: &[&str] = &["files", "dirs", "id_builder", "id", "ext", "desc", "parent_id", "entry"];

fn flat(t: &dyn ToTokens) -> String { t.to_token_stream().to_string().replace([' ', '\n'], "") }

fn mentions_tracked(t: &dyn ToTokens) -> bool {
    fn walk(ts: proc_macro2::TokenStream) -> bool {
        for tt in ts {
            match tt {
                proc_macro2::TokenTree::Ident(i) => { if TRACKED.contains(&i.to_string().as_str()) { return true; } }
                proc_macro2::TokenTree::Group(g) => { if walk(g.stream()) { return true; } }
                _ => {}
            }
        }
        false
    }
    walk(t.to_token_stream())
}

fn refuse<T>(which: &str, what: &str, t: &dyn ToTokens) -> Result<T, String> {
    Err(format!("{which}::register_file: unsupported {what}: `{}`", t.to_token_stream()))
}

fn act_of(which: &str, body: &Expr) -> Result<&'static str, String> {
    let s = flat(body);
    if s.starts_with("id_builder.push(") && s.ends_with(")?") && s.contains("to_str()?") { Ok(".push") }
    else if s == "id_builder.pop()?" { Ok(".pop") }
    else if s == "continue" { Ok(".skip") }
    else if s == "returnNone" { Ok(".fail") }
    else { refuse(which, "component action", body) }
}

fn walk_parent(which: &str, f: &syn::ExprForLoop) -> Result<String, String> {
    if flat(&f.expr) != "path.parent()?.components()" { return refuse(which, "loop range", &f.expr); }
    if f.body.stmts.len() != 1 { return refuse(which, "loop body", &f.body); }
    let m = match &f.body.stmts[0] { Stmt::Expr(Expr::Match(m), _) => m, other => return refuse(which, "loop body", other) };
    if flat(&m.expr) != flat(&f.pat) { return refuse(which, "match scrutinee", &m.expr); }
    let (mut n, mut p, mut c, mut o) = (None, None, None, None);
    for arm in &m.arms {
        if arm.guard.is_some() { return refuse(which, "match guard", &arm.pat); }
        let pat = flat(&arm.pat);
        let a = act_of(which, &arm.body)?;
        let slot = if pat.ends_with("Component::Normal(s)") { &mut n }
            else if pat.ends_with("Component::ParentDir") { &mut p }
            else if pat.ends_with("Component::CurDir") { &mut c }
            else if pat == "_" { &mut o }
            else { return refuse(which, "component pattern", &arm.pat) };
        if slot.is_some() { return refuse(which, "duplicate component pattern", &arm.pat); }
        *slot = Some(a);
    }
    match (n, p, c, o) {
        (Some(n), Some(p), Some(c), Some(o)) => Ok(format!(".walkParent {n} {p} {c} {o}")),
        _ => refuse(which, "component match (an arm is missing)", m),
    }
}

fn branch(which: &str, b: &syn::Block, is_file: bool) -> Result<Vec<String>, String> {
    let mut toks = vec![];
    let n = b.stmts.len();
    for (k, st) in b.stmts.iter().enumerate() {
        if !mentions_tracked(st) { continue; }
        let s = flat(st);
        match st {
            Stmt::Local(_) if s.starts_with("letext=") && s.contains("extension_of(") && (s.ends_with("path)?.into();")) => toks.push(".extOf".to_string()),
            Stmt::Local(_) if s == "letdesc=FileDesc(id,ext);" => toks.push(".descIdExt".into()),
            Stmt::Expr(Expr::MethodCall(m), Some(_)) if flat(&m.receiver) == "files" && m.method == "insert" => {
                if m.args.len() != 2 || flat(&m.args[0]) != "desc.clone()" || mentions_tracked(&m.args[1]) { return refuse(which, "files.insert arguments", m); }
                toks.push(".filesInsertDesc".into());
            }
            Stmt::Expr(Expr::If(i), _) if flat(&i.cond) == "!dirs.contains_key(&id)" => {
                if i.else_branch.is_some() || i.then_branch.stmts.len() != 1 || flat(&i.then_branch.stmts[0]) != "dirs.insert(id.clone(),Vec::new());" { return refuse(which, "guarded dirs.insert", i); }
                toks.push(".dirsInsertEmptyIfAbsent".into());
            }
            Stmt::Expr(Expr::MethodCall(_), Some(_)) if s == "dirs.insert(id.clone(),Vec::new());" => toks.push(".dirsInsertEmpty".into()),
            Stmt::Expr(e, None) if k + 1 == n && s == "OwnedEntry::File(desc)" && is_file => { let _ = e; toks.push(".entryFileDesc".into()) }
            Stmt::Expr(e, None) if k + 1 == n && s == "OwnedEntry::Dir(id)" && !is_file => { let _ = e; toks.push(".entryDirId".into()) }
            other => return refuse(which, "statement in entry branch", other),
        }
    }
    Ok(toks)
}

struct Sk { pre: Vec<String>, file: Vec<String>, dir: Vec<String>, post: Vec<String> }

fn closure_body<'a>(which: &str, e: &'a Expr) -> Result<&'a syn::Block, String> {
    // (|| { .. })().is_some()
    let mc = match e { Expr::MethodCall(m) if m.method == "is_some" => m, _ => return refuse(which, "`ok` initialiser", e) };
    let call = match &*mc.receiver { Expr::Call(c) if c.args.is_empty() => c, other => return refuse(which, "`ok` initialiser", other) };
    let mut f = &*call.func;
    while let Expr::Paren(p) = f { f = &p.expr; }
    match f {
        Expr::Closure(c) if c.inputs.is_empty() => match &*c.body { Expr::Block(b) => Ok(&b.block), other => refuse(which, "closure body", other) },
        other => refuse(which, "`ok` initialiser", other),
    }
}

fn skeleton(which: &str, file: &syn::File) -> Result<Sk, String> {
    let f = find_fn(file, "", "register_file").map_err(|e| format!("{which}: {e}"))?;
    let mut sk = Sk { pre: vec![], file: vec![], dir: vec![], post: vec![] };
    let mut seen_closure = false;
    for st in &f.block.stmts {
        let s = flat(st);
        if s == "id_builder.reset();" && !seen_closure { sk.pre.push(".reset".into()); continue; }
        if let Stmt::Local(l) = st {
            if flat(&l.pat) == "ok" {
                if seen_closure { return refuse(which, "second `ok` closure", st); }
                seen_closure = true;
                let init = l.init.as_ref().ok_or(format!("{which}: `let ok` without initialiser"))?;
                let body = closure_body(which, &init.expr)?;
                let mut after_entry = false;
                let n = body.stmts.len();
                for (k, cs) in body.stmts.iter().enumerate() {
                    let c = flat(cs);
                    if k + 1 == n && c == "Some(())" { continue; }
                    if !mentions_tracked(cs) { continue; }
                    let cur = if after_entry { &mut sk.post } else { &mut sk.pre };
                    match cs {
                        Stmt::Expr(Expr::ForLoop(fl), _) => cur.push(walk_parent(which, fl)?),
                        Stmt::Local(_) if c == "letparent_id=id_builder.join();" => cur.push(".joinParent".into()),
                        Stmt::Local(_) if c == "letid=id_builder.join();" => cur.push(".joinId".into()),
                        Stmt::Expr(_, Some(_)) if c == "id_builder.push(path.file_stem()?.to_str()?)?;" => cur.push(".pushStem".into()),
                        Stmt::Local(l2) if flat(&l2.pat) == "entry" => {
                            if after_entry { return refuse(which, "second `entry`", cs); }
                            let init = l2.init.as_ref().ok_or(format!("{which}: `let entry` without initialiser"))?;
                            let i = match &*init.expr { Expr::If(i) => i, other => return refuse(which, "`entry` initialiser", other) };
                            let cond = flat(&i.cond);
                            if !(cond.starts_with("file.") && cond.ends_with("is_file()")) || cond.contains('!') { return refuse(which, "is-file test", &i.cond); }
                            sk.file = branch(which, &i.then_branch, true)?;
                            let eb = match &i.else_branch { Some((_, e)) => match &**e { Expr::Block(b) => &b.block, other => return refuse(which, "else branch", other) }, None => return refuse(which, "missing else branch", i) };
                            sk.dir = branch(which, eb, false)?;
                            after_entry = true;
                        }
                        Stmt::Expr(_, Some(_)) if c == "dirs.entry(parent_id).or_default().push(entry);" => cur.push(".dirsPushParentEntry".into()),
                        other => return refuse(which, "statement in the registration closure", other),
                    }
                }
                if !after_entry { return Err(format!("{which}::register_file: no `let entry = if ..`")); }
                continue;
            }
        }
        if mentions_tracked(st) { return refuse(which, "statement", st); }
    }
    if !seen_closure { return Err(format!("{which}::register_file: registration closure not found")); }
    Ok(sk)
}

fn lean_list(v: &[String]) -> String { format!("[{}]", v.join(", ")) }

fn emit(name: &str, sk: &Sk) -> String {
    format!("def {name} : Skel where\n  pre := {}\n  fileBranch := {}\n  dirBranch := {}\n  post := {}\n\n",
        lean_list(&sk.pre), lean_list(&sk.file), lean_list(&sk.dir), lean_list(&sk.post))
}

/// Does `Source::read` of the archive type work on its own clone of the reader?
fn read_clones(file: &syn::File, ty: &str, field: &str) -> Result<bool, String> {
    let f = find_fn(file, &format!("Source for {ty}"), "read")?;
    let body = flat(f.block);
    Ok(body.contains(&format!("=self.{field}.clone();")))
}

pub fn gen(ctx: &mut Ctx) -> Result<String, String> {
    let zip = ctx.file("src/source/zip.rs")?.clone();
    let tar = ctx.file("src/source/tar.rs")?.clone();
    let mut out = String::from("import AmVerif.Model.ArchiveSkel\n\nnamespace AmVerif.Gen.Archive\nopen AmVerif.Model.ArchiveSkel\n\n");
    out.push_str("/-- effect skeleton of `register_file` in src/source/zip.rs -/\n");
    out.push_str(&emit("zipRegister", &skeleton("zip", &zip)?));
    out.push_str("/-- effect skeleton of `register_file` in src/source/tar.rs -/\n");
    out.push_str(&emit("tarRegister", &skeleton("tar", &tar)?));
    out.push_str(&format!("/-- `Zip::read` clones `self.archive` before reading -/\ndef zipReadClonesReader : Bool := {}\n", read_clones(&zip, "Zip", "archive")?));
    out.push_str(&format!("/-- `Tar::read` clones `self.reader` before seeking -/\ndef tarReadClonesReader : Bool := {}\n", read_clones(&tar, "Tar", "reader")?));
    out.push_str("\nend AmVerif.Gen.Archive\n");
    Ok(out)
}
