//! Effect skeletons → `Gen/Skel.lean`.
//!
//! For every listed function the body is linearised in evaluation order into tokens: calls
//! (method / function / macro names that are not on the ignore list of pure helpers), lock-guard
//! acquisitions and releases following Rust's drop-scope rules for the forms that occur, atomic
//! orderings, branch / loop / closure structure and early exits. Everything else is dropped and
//! local names never appear, so refactorings that do not change which effects happen in which
//! order inside which lock scope leave the skeleton unchanged. The vocabulary `Sym` is generated
//! from the names found (a new effect name changes it and every comparison that mentions it).

use crate::{find::{find_fn, find_nested_fn}, Ctx};
use quote::ToTokens;
use std::collections::BTreeSet;
use syn::{Expr, Pat, Stmt};

const IGNORE: &[&str] = &[
    "clone", "as_ref", "as_mut", "into", "from", "to_owned", "to_string", "iter", "into_iter", "map", "filter_map", "flat_map", "ok", "ok_or",
    "ok_or_else", "is_ok", "is_err", "is_some", "is_none", "unwrap", "unwrap_or", "unwrap_or_else", "expect", "as_borrowed", "hash", "finish",
    "build_hasher", "len", "id", "type_id", "new_with", "inner", "extend_lifetime", "as_ptr", "cast", "cloned", "copied", "collect", "rev",
    "trace", "debug", "info", "warn", "error", "Some", "Ok", "Err", "new", "of", "as_str", "as_dependency", "as_dir_entry", "is_empty",
    "format", "format_args", "size_hint", "next", "or", "map_err", "with_capacity", "cfg", "debug_assert_eq", "assert", "vec", "deref",
    "type_name", "default", "empty", "as_any_cache", "_as_any_cache", "from_type", "parent", "components", "strip_prefix", "to_str", "file_stem",
    "is_dir", "is_file", "join", "reset", "is_hot_reloaded", "reloader", "assets", "get_source", "to_vec", "add", "size_of_val", "for_value",
    "type_id_of", "matches", "Layout", "from_size_align_unchecked", "extend_layout", "unwrap_unchecked", "borrowed", "into_owned", "get_inner_layout",
    "handle_alloc_error", "yield_point", "new_biased", "as_bytes", "borrow", "into_boxed_slice", "needs_drop", "Self", "Record", "NonNull", "path", "kind", "starts_with", "push_str", "rfind",
];

const LOCKS: &[&str] = &["read", "write", "lock", "borrow", "borrow_mut", "try_read", "try_write", "try_lock"];

#[derive(Clone, Debug)]
enum Tok {
    Call(String),
    Acq(String, usize),
    Rel(usize),
    RetGuard(usize),
    Branch(Vec<Vec<Tok>>),
    Loop(Vec<Tok>),
    Closure(Vec<Tok>),
    Ret, Brk, Cont, Try,
}

struct Sk {
    toks: Vec<Tok>,
    next_guard: usize,
    /// live named guards of the enclosing blocks: (variable name, guard id), innermost last
    scopes: Vec<Vec<(String, usize)>>,
    /// temporaries acquired in the statement being processed
    temps: Vec<usize>,
    syms: BTreeSet<String>,
    /// labels of the enclosing loops (innermost last; `None` = unlabelled)
    loops: Vec<Option<String>>,
}

/// Effect names that are part of the vocabulary even when no listed function contains them today, so that
/// Lean definitions computing facts from skeletons can name them for the current and for a repaired source:
/// `break_outer` = a labelled `break` leaving a loop that is not the innermost one; `catch_unwind`.
const ALWAYS_SYMS: &[&str] = &["break_outer", "catch_unwind"];

fn last_seg(p: &syn::Path) -> String { p.segments.last().map(|s| s.ident.to_string()).unwrap_or_default() }

fn ordering_suffix(args: &syn::punctuated::Punctuated<Expr, syn::Token![,]>) -> String {
    for a in args.iter() {
        if let Expr::Path(p) = a {
            let segs: Vec<String> = p.path.segments.iter().map(|s| s.ident.to_string()).collect();
            if segs.len() == 2 && segs[0] == "Ordering" { return format!("_{}", segs[1]); }
        }
    }
    String::new()
}

impl Sk {
    fn call(&mut self, name: &str) {
        if IGNORE.contains(&name) { return; }
        let n = name.to_string();
        self.syms.insert(n.clone());
        self.toks.push(Tok::Call(n));
    }

    fn sub(&mut self, f: impl FnOnce(&mut Sk)) -> Vec<Tok> {
        let saved = std::mem::take(&mut self.toks);
        f(self);
        std::mem::replace(&mut self.toks, saved)
    }

    fn block(&mut self, b: &syn::Block) {
        self.scopes.push(vec![]);
        for st in &b.stmts { self.stmt(st); }
        let live = self.scopes.pop().unwrap();
        for (_, g) in live.into_iter().rev() { self.toks.push(Tok::Rel(g)); }
    }

    fn end_statement(&mut self) {
        for g in std::mem::take(&mut self.temps).into_iter().rev() { self.toks.push(Tok::Rel(g)); }
    }

    /// Does evaluating `e` yield a lock guard that a `let` would bind (guard at the head of the
    /// expression, possibly under `&`, `&mut`, `*`, a closure returning it via `.map`, or `wait_while`)?
    fn guard_head(e: &Expr) -> bool {
        match e {
            Expr::MethodCall(m) => {
                let n = m.method.to_string();
                if LOCKS.contains(&n.as_str()) && m.args.is_empty() && (!n.starts_with("borrow") || matches!(&*m.receiver, Expr::Field(_))) { return true; }
                if n == "wait_while" || n == "wait" { return true; }
                if n == "map" || n == "unwrap_or_else" || n == "unwrap" || n == "expect" {
                    // `opt.map(|d| d.lock.read())`, `lock().unwrap()`
                    if n == "map" { if let Some(Expr::Closure(c)) = m.args.first() { return Self::guard_head(&c.body); } }
                    return Self::guard_head(&m.receiver);
                }
                false
            }
            Expr::Reference(r) => Self::guard_head(&r.expr),
            Expr::Unary(u) if matches!(u.op, syn::UnOp::Deref(_)) => Self::guard_head(&u.expr),
            Expr::Paren(p) => Self::guard_head(&p.expr),
            Expr::Call(c) => { // wrap(self.0.read())
                if let Expr::Path(p) = &*c.func { if last_seg(&p.path) == "wrap" { return c.args.first().map_or(false, Self::guard_head); } }
                false
            }
            _ => false,
        }
    }

    /// statements under `#[cfg(assets_manager_verif)]` (verification hooks) are not part of the code
    fn is_hook_stmt(st: &Stmt) -> bool {
        let attrs: &[syn::Attribute] = match st {
            Stmt::Local(l) => &l.attrs,
            Stmt::Macro(m) => &m.attrs,
            Stmt::Expr(e, _) => match e {
                Expr::Call(c) => &c.attrs, Expr::MethodCall(c) => &c.attrs, Expr::Macro(c) => &c.attrs, Expr::Block(c) => &c.attrs,
                Expr::If(c) => &c.attrs, Expr::Assign(c) => &c.attrs, Expr::Unsafe(c) => &c.attrs, _ => &[],
            },
            Stmt::Item(_) => &[],
        };
        crate::find::is_verif_cfg(attrs)
    }

    fn stmt(&mut self, st: &Stmt) {
        if Self::is_hook_stmt(st) { return; }
        match st {
            Stmt::Local(l) => {
                if let Some(init) = &l.init {
                    let named = match &l.pat { Pat::Ident(i) => Some(i.ident.to_string()), Pat::Type(t) => match &*t.pat { Pat::Ident(i) => Some(i.ident.to_string()), _ => None }, _ => None };
                    let before = self.temps.len();
                    self.expr(&init.expr);
                    if let (Some(name), true) = (&named, Self::guard_head(&init.expr)) {
                        // the guard acquired last by this initialiser is bound: it lives to the end of the block
                        if self.temps.len() > before {
                            let g = self.temps.pop().unwrap();
                            // rebinding (wait_while(guard, ..) returns the guard again): keep one entry per name
                            let scope = self.scopes.last_mut().unwrap();
                            scope.retain(|(n, _)| n != name);
                            scope.push((name.clone(), g));
                        } else if let Some(scope) = self.scopes.last_mut() {
                            // e.g. `let guard = condvar.wait_while(guard, ..)`: same guard, new binding
                            let _ = scope;
                        }
                    }
                    if let Some((_, els)) = &init.diverge { let t = self.sub(|s| s.expr(els)); self.toks.push(Tok::Branch(vec![t, vec![]])); }
                }
                self.end_statement();
            }
            Stmt::Expr(e, _) => { self.expr(e); self.end_statement(); }
            Stmt::Macro(m) => { self.call(&last_seg(&m.mac.path)); self.end_statement(); }
            Stmt::Item(_) => {}
        }
    }

    fn release_named(&mut self, name: &str) -> bool {
        for scope in self.scopes.iter_mut().rev() {
            if let Some(pos) = scope.iter().position(|(n, _)| n == name) {
                let (_, g) = scope.remove(pos);
                self.toks.push(Tok::Rel(g));
                return true;
            }
        }
        false
    }

    fn expr(&mut self, e: &Expr) {
        match e {
            Expr::MethodCall(m) => {
                self.expr(&m.receiver);
                let n = m.method.to_string();
                // `wait_while(guard, cond)`: the guard argument is moved in and handed back
                for a in m.args.iter() { if !(n.starts_with("wait") && matches!(a, Expr::Path(_))) { self.expr(a); } }
                // `x.borrow()` / `x.borrow_mut()` is a RefCell lock only on a field (`self.map.borrow()`), not on a key
                let is_lock = LOCKS.contains(&n.as_str()) && m.args.is_empty() && (!n.starts_with("borrow") || matches!(&*m.receiver, Expr::Field(_)));
                if is_lock {
                    let g = self.next_guard; self.next_guard += 1;
                    self.syms.insert(n.clone());
                    self.toks.push(Tok::Acq(n, g));
                    self.temps.push(g);
                } else {
                    let suffix = ordering_suffix(&m.args);
                    self.call(&format!("{n}{suffix}"));
                }
            }
            Expr::Call(c) => {
                let name = match &*c.func { Expr::Path(p) => last_seg(&p.path), other => { self.expr(other); String::new() } };
                if name == "drop" && c.args.len() == 1 {
                    if let Expr::Path(p) = &c.args[0] { if self.release_named(&last_seg(&p.path)) { return; } }
                }
                for a in c.args.iter() { self.expr(a); }
                if !name.is_empty() {
                    let suffix = ordering_suffix(&c.args);
                    self.call(&format!("{name}{suffix}"));
                }
            }
            Expr::Macro(m) => {
                let name = last_seg(&m.mac.path);
                // look inside simple macros whose arguments are expressions
                if let Ok(args) = m.mac.parse_body_with(syn::punctuated::Punctuated::<Expr, syn::Token![,]>::parse_terminated) {
                    if !IGNORE.contains(&name.as_str()) { for a in args.iter() { self.expr(a); } }
                }
                self.call(&name);
            }
            Expr::If(i) => {
                self.expr(&i.cond);
                let t = self.sub(|s| s.block(&i.then_branch));
                let f = match &i.else_branch { Some((_, e)) => self.sub(|s| s.expr(e)), None => vec![] };
                self.toks.push(Tok::Branch(vec![t, f]));
            }
            Expr::Let(l) => self.expr(&l.expr),
            Expr::Match(m) => {
                self.expr(&m.expr);
                let mut arms = vec![];
                for a in &m.arms {
                    arms.push(self.sub(|s| { if let Some((_, g)) = &a.guard { s.expr(g); } s.expr(&a.body); s.end_statement_in_arm(); }));
                }
                self.toks.push(Tok::Branch(arms));
            }
            Expr::Block(b) => self.block(&b.block),
            Expr::Unsafe(u) => self.block(&u.block),
            Expr::Loop(l) => { self.loops.push(l.label.as_ref().map(|x| x.name.ident.to_string())); let t = self.sub(|s| s.block(&l.body)); self.loops.pop(); self.toks.push(Tok::Loop(t)); }
            Expr::While(w) => { self.loops.push(w.label.as_ref().map(|x| x.name.ident.to_string())); let t = self.sub(|s| { s.expr(&w.cond); s.block(&w.body) }); self.loops.pop(); self.toks.push(Tok::Loop(t)); }
            Expr::ForLoop(f) => { self.expr(&f.expr); self.loops.push(f.label.as_ref().map(|x| x.name.ident.to_string())); let t = self.sub(|s| s.block(&f.body)); self.loops.pop(); self.toks.push(Tok::Loop(t)); }
            Expr::Closure(c) => { let t = self.sub(|s| s.expr(&c.body)); if !t.is_empty() { self.toks.push(Tok::Closure(t)); } }
            Expr::Try(t) => { self.expr(&t.expr); self.toks.push(Tok::Try); }
            Expr::Return(r) => { if let Some(e) = &r.expr { self.expr(e); } self.toks.push(Tok::Ret); }
            Expr::Break(b) => {
                if let Some(e) = &b.expr { self.expr(e); }
                // `break 'l` where `'l` is not the innermost enclosing loop leaves several loops at once
                if let Some(l) = &b.label {
                    let name = l.ident.to_string();
                    if self.loops.last().map_or(false, |inner| inner.as_deref() != Some(name.as_str())) { self.call("break_outer"); }
                }
                self.toks.push(Tok::Brk);
            }
            Expr::Continue(_) => self.toks.push(Tok::Cont),
            Expr::Assign(a) => { self.expr(&a.right); self.expr(&a.left); if matches!(&*a.left, Expr::Unary(_)) { self.call("assign_deref"); } }
            Expr::Binary(b) => { self.expr(&b.left); self.expr(&b.right); }
            Expr::Unary(u) => self.expr(&u.expr),
            Expr::Reference(r) => self.expr(&r.expr),
            Expr::Paren(p) => self.expr(&p.expr),
            Expr::Group(g) => self.expr(&g.expr),
            Expr::Field(f) => self.expr(&f.base),
            Expr::Index(i) => { self.expr(&i.expr); self.expr(&i.index); }
            Expr::Cast(c) => self.expr(&c.expr),
            Expr::Tuple(t) => for x in t.elems.iter() { self.expr(x) },
            Expr::Array(a) => for x in a.elems.iter() { self.expr(x) },
            Expr::Struct(s) => {
                for f in s.fields.iter() {
                    // a named guard moved into a returned struct leaves the function alive
                    if let Expr::Path(p) = &f.expr {
                        let name = last_seg(&p.path);
                        let mut moved = None;
                        for scope in self.scopes.iter_mut().rev() { if let Some(pos) = scope.iter().position(|(n, _)| *n == name) { moved = Some(scope.remove(pos).1); break; } }
                        if let Some(g) = moved { self.toks.push(Tok::RetGuard(g)); continue; }
                    }
                    // `guard: this.guard`: a guard held by the consumed value is moved on, not re-acquired (C07)
                    if let (syn::Member::Named(fname), Expr::Field(src)) = (&f.member, &f.expr) {
                        if let syn::Member::Named(sname) = &src.member { if fname == "guard" && sname == "guard" { self.call("guard_moved"); continue; } }
                    }
                    self.expr(&f.expr);
                }
            }
            Expr::Range(r) => { if let Some(a) = &r.start { self.expr(a); } if let Some(b) = &r.end { self.expr(b); } }
            Expr::Path(_) | Expr::Lit(_) => {}
            other => { self.call(&format!("unsupported_{}", other.to_token_stream().to_string().split_whitespace().next().unwrap_or("expr"))); }
        }
    }

    fn end_statement_in_arm(&mut self) {}
}

fn lean_toks(toks: &[Tok]) -> String {
    let parts: Vec<String> = toks.iter().map(|t| match t {
        Tok::Call(n) => format!(".call .{}", sym(n)),
        Tok::Acq(n, g) => format!(".acq .{} {g}", sym(n)),
        Tok::Rel(g) => format!(".rel {g}"),
        Tok::RetGuard(g) => format!(".retGuard {g}"),
        Tok::Branch(alts) => format!(".branch [{}]", alts.iter().map(|a| lean_toks(a)).collect::<Vec<_>>().join(", ")),
        Tok::Loop(b) => format!(".loop {}", lean_toks(b)),
        Tok::Closure(b) => format!(".closure {}", lean_toks(b)),
        Tok::Ret => ".ret".into(), Tok::Brk => ".brk".into(), Tok::Cont => ".cont".into(), Tok::Try => ".try_".into(),
    }).collect();
    format!("[{}]", parts.join(", "))
}

fn sym(n: &str) -> String { format!("s_{}", n.replace(|c: char| !c.is_alphanumeric() && c != '_', "_")) }

/// (file, owner, function, nested-in) — the functions whose effect order the interleaving models rely on.
const FUNCS: &[(&str, &str, &str, &str)] = &[
    ("src/cache.rs", "AssetMap for AssetMap", "get", ""),
    ("src/cache.rs", "AssetMap for AssetMap", "insert", ""),
    ("src/cache.rs", "AssetMap for AssetMap", "contains_key", ""),
    ("src/cache.rs", "AssetMap", "take", ""),
    ("src/cache.rs", "AssetMap", "clear", ""),
    ("src/local_cache.rs", "AssetMap for AssetMap", "get", ""),
    ("src/local_cache.rs", "AssetMap for AssetMap", "insert", ""),
    ("src/local_cache.rs", "AssetMap for AssetMap", "contains_key", ""),
    ("src/anycache.rs", "RawCache", "add_asset", ""),
    ("src/anycache.rs", "Cache for T", "load_entry", ""),
    ("src/anycache.rs", "Cache for T", "load_owned_entry", ""),
    ("src/anycache.rs", "Cache for T", "get_cached_entry_inner", ""),
    ("src/anycache.rs", "CacheExt", "add_any", ""),
    ("src/anycache.rs", "CacheExt", "_get_or_insert", ""),
    ("src/anycache.rs", "AnyCache", "reload_untyped", ""),
    ("src/asset.rs", "", "load_and_record", ""),
    ("src/entry.rs", "UntypedEntry", "write", ""),
    ("src/entry.rs", "EntryStorage", "read", ""),
    ("src/entry.rs", "EntryStorage", "get", ""),
    ("src/entry.rs", "AssetReadGuard", "map", ""),
    ("src/entry.rs", "AssetReadGuard", "try_map", ""),
    ("src/hot_reloading/records.rs", "", "record", ""),
    ("src/hot_reloading/records.rs", "", "no_record", ""),
    ("src/hot_reloading/records.rs", "", "add_record", ""),
    ("src/hot_reloading/records.rs", "CellGuard", "replace", ""),
    ("src/hot_reloading/records.rs", "Drop for CellGuard", "drop", ""),
    ("src/hot_reloading/dependencies.rs", "DepsGraph", "insert", ""),
    ("src/hot_reloading/dependencies.rs", "DepsGraph", "visit", ""),
    ("src/hot_reloading/dependencies.rs", "DepsGraph", "reload", ""),
    ("src/hot_reloading/dependencies.rs", "DepsGraph", "topological_sort_from", ""),
    ("src/hot_reloading/dependencies.rs", "TopologicalSort", "into_iter", ""),
    ("src/hot_reloading/paths.rs", "", "run_update", ""),
    ("src/hot_reloading/paths.rs", "HotReloadingData", "handle_events", ""),
    ("src/hot_reloading/paths.rs", "HotReloadingData", "update_if_local", ""),
    ("src/hot_reloading/paths.rs", "HotReloadingData", "use_static_ref", ""),
    ("src/hot_reloading/paths.rs", "HotReloadingData", "clear_local_cache", ""),
    ("src/hot_reloading/paths.rs", "HotReloadingData", "add_asset", ""),
    ("src/hot_reloading/mod.rs", "Answers", "get_unique_token", ""),
    ("src/hot_reloading/mod.rs", "Answers", "notify", ""),
    ("src/hot_reloading/mod.rs", "Answers", "wait_for_answer", ""),
    ("src/hot_reloading/mod.rs", "HotReloader", "start", ""),
    ("src/hot_reloading/mod.rs", "HotReloader", "reload", ""),
    ("src/hot_reloading/mod.rs", "HotReloader", "add_asset", ""),
    ("src/hot_reloading/mod.rs", "HotReloader", "clear", ""),
    ("src/hot_reloading/mod.rs", "", "hot_reloading_thread", ""),
];

pub fn gen(ctx: &mut Ctx) -> Result<String, String> {
    let mut defs = String::new();
    let mut syms: BTreeSet<String> = ALWAYS_SYMS.iter().map(|s| s.to_string()).collect();
    for (file, owner, name, outer) in FUNCS {
        let f = ctx.file(file)?.clone();
        let fr = if outer.is_empty() { find_fn(&f, owner, name)? } else { find_nested_fn(&f, owner, outer, name)? };
        let mut sk = Sk { toks: vec![], next_guard: 0, scopes: vec![], temps: vec![], syms: BTreeSet::new(), loops: vec![] };
        sk.block(fr.block);
        let modname = file.trim_start_matches("src/").trim_end_matches(".rs").replace(['/', '.'], "_");
        let own = owner.replace(" for ", "_for_").replace(' ', "_");
        let def = format!("skel_{modname}_{}{}{name}", own, if own.is_empty() { "" } else { "_" });
        defs.push_str(&format!("/-- `{file}`: `{}{}{name}` -/\ndef {def} : List Sk := {}\n\n", owner, if owner.is_empty() { "" } else { "::" }, lean_toks(&sk.toks)));
        syms.extend(sk.syms);
    }
    let mut out = String::from("import AmVerif.Model.Skel\n\nnamespace AmVerif.Gen\nopen AmVerif.Model\n\n/-- effect names found in the listed functions -/\ninductive Sym\n");
    for s in &syms { out.push_str(&format!("  | {}\n", sym(s))); }
    out.push_str("  deriving DecidableEq, Repr\n\nabbrev Sk := AmVerif.Model.Sk Sym\n\n");
    out.push_str(&defs);
    out.push_str("end AmVerif.Gen\n");
    Ok(out)
}
