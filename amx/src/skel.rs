//! Lock / atomic / channel skeletons → `Gen/Skel.lean`.
use crate::Ctx;

pub fn gen(_ctx: &mut Ctx) -> Result<String, String> {
    Ok("namespace AmVerif.Gen\nend AmVerif.Gen\n".into())
}
