//! Watcher decision tables (src/hot_reloading/watcher.rs) → `Gen/Watch.lean`.
//!
//! * `watchTable : EvKind → Arm` — for each (fine) `notify::EventKind` what the first matching arm
//!   of `let (with_parent, is_dir) = match event.kind {..}` in `NotifyEventHandler::handle_event`
//!   yields: `return`, or the pair (is the parent directory named too, what the notification says
//!   about the kind of the entry). The rest of the loop body (one `id_of_path` per root, the
//!   parent taken from the id of the entry, one `send_multiple`, the watcher dropped on a failed
//!   send) is compared literally; any other shape is refused.
//! * `compTable : CompKind → CompAct` — what the `match comp` loop of `id_of_path` does with each
//!   `std::path::Component` kind (push / pop / skip / give up).
//! * `idShape : IdShape` — the rest of `id_of_path`: is the root itself translated, where the kind
//!   comes from, which part of the name is the last id segment of a directory / of a file, is an
//!   empty extension (`name.`) refused.
//!
//! Patterns and arm bodies outside the tiny recognised subset are refused.

use crate::{find::find_fn, Ctx};
use quote::ToTokens;
use syn::{visit::Visit, Expr, Pat};

fn squash(t: &dyn ToTokens) -> String {
    t.to_token_stream().to_string().replace(' ', "")
}

struct FindMatch<'a> {
    scrutinee: &'a str,
    found: Vec<syn::ExprMatch>,
}

impl<'a, 'ast> Visit<'ast> for FindMatch<'a> {
    fn visit_expr_match(&mut self, m: &'ast syn::ExprMatch) {
        if squash(&m.expr) == self.scrutinee {
            self.found.push(m.clone());
        }
        syn::visit::visit_expr_match(self, m);
    }
}

fn find_match(block: &syn::Block, scrutinee: &str, what: &str) -> Result<syn::ExprMatch, String> {
    let mut v = FindMatch { scrutinee, found: vec![] };
    v.visit_block(block);
    match v.found.len() {
        1 => Ok(v.found.pop().unwrap()),
        n => Err(format!("{what}: expected exactly one `match {scrutinee}`, found {n}")),
    }
}

fn last_seg(p: &syn::Path) -> String {
    p.segments.last().map(|s| s.ident.to_string()).unwrap_or_default()
}

/// Fine event kinds: (Lean constructor, EventKind variant, sub-kind: "" = none distinguished,
/// "Name" = `ModifyKind::Name(_)`, "File" / "Folder" = `RemoveKind::File` / `RemoveKind::Folder`,
/// "*" = any other sub-kind of that variant).
const EV_KINDS: &[(&str, &str, &str)] = &[
    ("any", "Any", ""),
    ("access", "Access", ""),
    ("create", "Create", ""),
    ("modifyName", "Modify", "Name"),
    ("modifyOther", "Modify", "*"),
    ("removeFile", "Remove", "File"),
    ("removeFolder", "Remove", "Folder"),
    ("removeOther", "Remove", "*"),
    ("other", "Other", ""),
];

/// Does pattern `p` match the event kind (variant, sub)?  Err = unrecognised pattern.
fn ev_pat_matches(p: &Pat, variant: &str, sub: &str) -> Result<bool, String> {
    match p {
        Pat::Wild(_) => Ok(true),
        Pat::Paren(pp) => ev_pat_matches(&pp.pat, variant, sub),
        Pat::Or(o) => {
            let mut any = false;
            for c in o.cases.iter() {
                any |= ev_pat_matches(c, variant, sub)?;
            }
            Ok(any)
        }
        Pat::Path(pp) => {
            let v = last_seg(&pp.path);
            if !["Any", "Other"].contains(&v.as_str()) {
                return Err(format!("unit pattern `{}` is not EventKind::Any/Other", squash(p)));
            }
            Ok(v == variant)
        }
        Pat::Ident(i) if i.subpat.is_none() && i.by_ref.is_none() => {
            let v = i.ident.to_string();
            if !["Any", "Other"].contains(&v.as_str()) {
                return Err(format!("binding pattern `{v}` in `match event.kind`"));
            }
            Ok(v == variant)
        }
        Pat::TupleStruct(ts) => {
            let v = last_seg(&ts.path);
            if !["Access", "Create", "Modify", "Remove"].contains(&v.as_str()) || ts.elems.len() != 1 {
                return Err(format!("unrecognised pattern `{}`", squash(p)));
            }
            match &ts.elems[0] {
                Pat::Wild(_) => Ok(v == variant),
                Pat::TupleStruct(inner) if v == "Modify" && last_seg(&inner.path) == "Name" && inner.elems.len() == 1 && matches!(inner.elems[0], Pat::Wild(_)) => {
                    Ok(variant == "Modify" && sub == "Name")
                }
                Pat::Path(inner) if v == "Remove" && ["File", "Folder"].contains(&last_seg(&inner.path).as_str()) => {
                    let seg: Vec<String> = inner.path.segments.iter().map(|x| x.ident.to_string()).collect();
                    if seg.len() < 2 || seg[seg.len() - 2] != "RemoveKind" { return Err(format!("unrecognised sub-pattern `{}`", squash(inner))); }
                    Ok(variant == "Remove" && sub == last_seg(&inner.path))
                }
                other => Err(format!("unrecognised sub-pattern `{}`", squash(other))),
            }
        }
        other => Err(format!("unrecognised pattern `{}`", squash(other))),
    }
}

fn unwrap_block(e: &Expr) -> &Expr {
    match e {
        Expr::Block(b) if b.block.stmts.len() == 1 => match &b.block.stmts[0] {
            syn::Stmt::Expr(inner, None) => unwrap_block(inner),
            _ => e,
        },
        Expr::Paren(p) => unwrap_block(&p.expr),
        _ => e,
    }
}

/// Arm body → Lean term of type `Arm`: `return`, or `(with_parent, is_dir)` literally.
fn ev_arm(e: &Expr) -> Result<String, String> {
    let e = unwrap_block(e);
    match e {
        Expr::Return(r) if r.expr.is_none() => Ok(".ret".into()),
        Expr::Tuple(t) if t.elems.len() == 2 => {
            let wp = match squash(&t.elems[0]).as_str() { "true" => "true", "false" => "false", o => return Err(format!("`with_parent` is not a literal: `{o}`")) };
            let hint = match squash(&t.elems[1]).as_str() {
                "None" => "none", "Some(true)" => "(some true)", "Some(false)" => "(some false)",
                o => return Err(format!("`is_dir` is not None / Some(literal): `{o}`")),
            };
            Ok(format!(".act {wp} {hint}"))
        }
        other => Err(format!("unrecognised arm body `{}`", squash(other))),
    }
}

/// The loop body of `handle_event` around the kind table, literally.
const LOOP_BEFORE: &str = "let(with_parent,is_dir)=";
const LOOP_AFTER: &[&str] = &[
    "letid_builder=&mutself.id_builder;",
    "letids=self.roots.iter().filter_map(|root|id_of_path(id_builder,root,&path,is_dir)).flat_map(|entry|{letparent=matchentry.as_dir_entry().parent_id(){Some(id)ifwith_parent=>Some(id.into()),_=>None,};std::iter::once(entry).chain(parent.map(OwnedDirEntry::Directory))});",
    "ifself.events.send_multiple(ids).is_err(){drop(self.watcher.take());}",
];

struct FindFor { found: Vec<syn::ExprForLoop> }
impl<'ast> Visit<'ast> for FindFor {
    fn visit_expr_for_loop(&mut self, f: &'ast syn::ExprForLoop) {
        if squash(&f.expr) == "event.paths" { self.found.push(f.clone()); }
        syn::visit::visit_expr_for_loop(self, f);
    }
}

/// Checks the shape of `for path in event.paths { let (with_parent, is_dir) = match event.kind {..}; .. }`
/// and returns the match.
fn event_loop(block: &syn::Block) -> Result<syn::ExprMatch, String> {
    let mut v = FindFor { found: vec![] };
    v.visit_block(block);
    if v.found.len() != 1 { return Err(format!("handle_event: expected exactly one `for path in event.paths`, found {}", v.found.len())); }
    let f = &v.found[0];
    if squash(&f.pat) != "path" { return Err("handle_event: the loop variable is not `path`".into()); }
    let st = &f.body.stmts;
    if st.len() != 1 + LOOP_AFTER.len() { return Err(format!("handle_event: the loop over event.paths has {} statements, expected {}", st.len(), 1 + LOOP_AFTER.len())); }
    let m = match &st[0] {
        syn::Stmt::Local(l) if squash(&l.pat) == "(with_parent,is_dir)" => match l.init.as_ref().map(|i| (&*i.expr, i.diverge.is_none())) {
            Some((Expr::Match(m), true)) if squash(&m.expr) == "event.kind" => m.clone(),
            _ => return Err("handle_event: `(with_parent, is_dir)` is not initialised by `match event.kind`".into()),
        },
        other => return Err(format!("handle_event: the loop does not start with `{LOOP_BEFORE}match event.kind {{..}}`: `{}`", squash(other))),
    };
    for (k, want) in LOOP_AFTER.iter().enumerate() {
        let got = squash(&st[k + 1]);
        if got != *want { return Err(format!("handle_event: unrecognised statement `{got}` (expected `{want}`)")); }
    }
    Ok(m)
}

/// The part of `id_of_path` around its component loop → Lean term of type `IdShape`.
fn id_shape(f: &crate::find::FnRef) -> Result<String, String> {
    let params: Vec<String> = f.sig.inputs.iter().map(|a| match a { syn::FnArg::Typed(t) => squash(&t.pat), o => squash(o) }).collect();
    let has_hint = match params.iter().map(|x| x.as_str()).collect::<Vec<_>>()[..] {
        ["id_builder", "root", "path"] => false,
        ["id_builder", "root", "path", "is_dir"] => true,
        _ => return Err(format!("id_of_path: unrecognised parameters {params:?}")),
    };
    let st = &f.block.stmts;
    let mut k = 0;
    if st.get(k).map(|x| squash(x)) != Some("id_builder.reset();".into()) { return Err("id_of_path: does not start with `id_builder.reset();`".into()); }
    k += 1;
    let mut root_check = false;
    if let Some(x) = st.get(k) {
        if !matches!(x, syn::Stmt::Expr(Expr::ForLoop(_), _)) {
            if squash(x) == "ifpath==root{returnSome(OwnedDirEntry::Directory(id_builder.join()));}" { root_check = true; k += 1; }
            else { return Err(format!("id_of_path: unrecognised statement before the loop `{}`", squash(x))); }
        }
    }
    match st.get(k) { Some(syn::Stmt::Expr(Expr::ForLoop(_), _)) => k += 1, _ => return Err("id_of_path: component loop not found".into()) }
    let rest: Vec<String> = st[k..].iter().map(|x| squash(x)).collect();
    let cond_of = |c: &str| -> Result<bool, String> {
        match c { "path.is_dir()" => Ok(false), "is_dir.unwrap_or_else(||path.is_dir())" if has_hint => Ok(true), o => Err(format!("id_of_path: unrecognised kind test `{o}`")) }
    };
    let if_of = |s: &syn::Stmt| -> Result<syn::ExprIf, String> {
        match s {
            syn::Stmt::Local(l) if squash(&l.pat) == "entry" => match l.init.as_ref().map(|i| &*i.expr) { Some(Expr::If(i)) => Ok(i.clone()), _ => Err("id_of_path: `entry` is not initialised by an `if`".into()) },
            o => Err(format!("id_of_path: expected `let entry = if ..`, found `{}`", squash(o))),
        }
    };
    let else_block = |i: &syn::ExprIf| -> Result<syn::Block, String> {
        match &i.else_branch { Some((_, e)) => match &**e { Expr::Block(b) => Ok(b.block.clone()), _ => Err("id_of_path: else branch".to_string()) }, None => Err("id_of_path: no else branch".into()) }
    };
    const EXT_MATCH: &str = "letext=matchpath.extension(){Some(ext)ifext.is_empty()=>returnNone,Some(ext)=>ext.to_str()?,None=>\"\",};";
    let (hint, dir_name, file_name, reject) = if rest.len() == 4 && rest[0] == "id_builder.push(path.file_stem()?.to_str()?)?;" && rest[1] == "letid=id_builder.join();" && rest[3] == "Some(entry)" {
        // the name is pushed before the kind is known
        let i = if_of(&st[k + 2])?;
        if squash(&i.then_branch) != "{OwnedDirEntry::Directory(id)}" { return Err("id_of_path: unrecognised directory branch".into()); }
        if squash(&else_block(&i)?) != "{letext=crate::utils::extension_of(path)?.into();OwnedDirEntry::File(id,ext)}" { return Err("id_of_path: unrecognised file branch".into()); }
        (cond_of(&squash(&i.cond))?, ".stem", ".stem", false)
    } else if rest.len() == 2 && rest[1] == "Some(entry)" {
        let i = if_of(&st[k])?;
        let d: Vec<String> = i.then_branch.stmts.iter().map(|x| squash(x)).collect();
        let dir_name = match d.iter().map(|x| x.as_str()).collect::<Vec<_>>()[..] {
            ["id_builder.push(path.file_name()?.to_str()?)?;", "OwnedDirEntry::Directory(id_builder.join())"] => ".whole",
            ["id_builder.push(path.file_stem()?.to_str()?)?;", "OwnedDirEntry::Directory(id_builder.join())"] => ".stem",
            _ => return Err(format!("id_of_path: unrecognised directory branch `{}`", d.join(""))),
        };
        let e: Vec<String> = else_block(&i)?.stmts.iter().map(|x| squash(x)).collect();
        let (file_name, reject) = match e.iter().map(|x| x.as_str()).collect::<Vec<_>>()[..] {
            ["id_builder.push(path.file_stem()?.to_str()?)?;", EXT_MATCH, "OwnedDirEntry::File(id_builder.join(),ext.into())"] => (".stem", true),
            ["id_builder.push(path.file_stem()?.to_str()?)?;", "letext=crate::utils::extension_of(path)?;", "OwnedDirEntry::File(id_builder.join(),ext.into())"] => (".stem", false),
            _ => return Err(format!("id_of_path: unrecognised file branch `{}`", e.join(""))),
        };
        (cond_of(&squash(&i.cond))?, dir_name, file_name, reject)
    } else {
        return Err(format!("id_of_path: unrecognised statements after the loop `{}`", rest.join("")));
    };
    Ok(format!("{{ rootIsEmptyDir := {root_check}, kindFromHint := {hint}, dirName := {dir_name}, fileName := {file_name}, emptyExtRefused := {reject} }}"))
}

const COMP_KINDS: &[(&str, &str)] = &[("pfx", "Prefix"), ("rootDir", "RootDir"), ("curDir", "CurDir"), ("parentDir", "ParentDir"), ("normal", "Normal")];

fn comp_pat_matches(p: &Pat, variant: &str) -> Result<bool, String> {
    match p {
        Pat::Wild(_) => Ok(true),
        Pat::Or(o) => {
            let mut any = false;
            for c in o.cases.iter() {
                any |= comp_pat_matches(c, variant)?;
            }
            Ok(any)
        }
        Pat::Path(pp) => Ok(last_seg(&pp.path) == variant),
        Pat::TupleStruct(ts) if ts.elems.len() == 1 => Ok(last_seg(&ts.path) == variant),
        other => Err(format!("unrecognised component pattern `{}`", squash(other))),
    }
}

fn comp_arm(e: &Expr) -> Result<&'static str, String> {
    let s = squash(unwrap_block(e));
    match s.as_str() {
        "id_builder.push(s.to_str()?)?" => Ok(".push"),
        "id_builder.pop()?" => Ok(".pop"),
        "continue" => Ok(".skip"),
        "returnNone" => Ok(".fail"),
        _ => Err(format!("unrecognised component arm body `{s}`")),
    }
}

pub fn gen(ctx: &mut Ctx) -> Result<String, String> {
    let file = ctx.file("src/hot_reloading/watcher.rs")?.clone();
    let mut out = String::from("import AmVerif.Model.WatchTypes\n\nnamespace AmVerif.Gen\nopen AmVerif.Model.Watch\n\n");

    // ---- event-kind table
    let f = find_fn(&file, "EventHandler for NotifyEventHandler", "handle_event")?;
    let m = event_loop(f.block)?;
    out.push_str("/-- `let (with_parent, is_dir) = match event.kind {..}` of `NotifyEventHandler::handle_event`: first matching arm per kind. -/\ndef watchTable : EvKind → Arm\n");
    for (lean, variant, sub) in EV_KINDS {
        let mut chosen = None;
        for arm in &m.arms {
            if arm.guard.is_some() {
                return Err("handle_event: guard in `match event.kind`".into());
            }
            if ev_pat_matches(&arm.pat, variant, sub).map_err(|e| format!("handle_event: {e}"))? {
                chosen = Some(ev_arm(&arm.body).map_err(|e| format!("handle_event ({variant}): {e}"))?);
                break;
            }
        }
        let body = chosen.ok_or_else(|| format!("handle_event: no arm matches EventKind::{variant}"))?;
        out.push_str(&format!("  | .{lean} => {body}\n"));
    }
    out.push('\n');

    // ---- component table of id_of_path
    let f = find_fn(&file, "", "id_of_path")?;
    let m = find_match(f.block, "comp", "id_of_path")?;
    out.push_str("/-- `match comp` in the loop of `id_of_path`. -/\ndef compTable : CompKind → CompAct\n");
    for (lean, variant) in COMP_KINDS {
        let mut chosen = None;
        for arm in &m.arms {
            if arm.guard.is_some() {
                return Err("id_of_path: guard in `match comp`".into());
            }
            if comp_pat_matches(&arm.pat, variant).map_err(|e| format!("id_of_path: {e}"))? {
                chosen = Some(comp_arm(&arm.body).map_err(|e| format!("id_of_path ({variant}): {e}"))?);
                break;
            }
        }
        let body = chosen.ok_or_else(|| format!("id_of_path: no arm matches Component::{variant}"))?;
        out.push_str(&format!("  | .{lean} => {body}\n"));
    }
    // what the loop iterates over: the parent of the path, stripped of the root
    let iter_ok = squash(f.block).contains("forcompinpath.parent()?.strip_prefix(root).ok()?.components()");
    out.push_str(&format!("\n/-- the loop of `id_of_path` runs over `path.parent()?.strip_prefix(root).ok()?.components()` -/\ndef idLoopOverStrippedParent : Bool := {}\n", iter_ok));
    out.push_str(&format!("\n/-- `id_of_path` around its component loop -/\ndef idShape : IdShape := {}\n", id_shape(&f)?));
    out.push_str("\nend AmVerif.Gen\n");
    Ok(out)
}
