//! Watcher decision tables (src/hot_reloading/watcher.rs) → `Gen/Watch.lean`.
//!
//! * `watchTable : EvKind → Arm` — for each (fine) `notify::EventKind` which of {path, parent}
//!   the first matching arm of `match event.kind` in `NotifyEventHandler::handle_event` yields
//!   (with / without an existing parent), or that the handler returns.
//! * `compTable : CompKind → CompAct` — what the `match comp` loop of `id_of_path` does with each
//!   `std::path::Component` kind (push / pop / skip / give up).
//!
//! Patterns and arm bodies outside the tiny recognised subset are refused.

use crate::{find::find_fn, Ctx};
use quote::ToTokens;
use syn::{visit::Visit, Expr, Pat};

fn squash(t: &dyn ToTokens) -> String {
    t.to_token_stream().to_string().replace(' ', "")
}

struct FindMatch<'a> {
    scrutinee: &'a str,
    found: Vec<syn::ExprMatch>,
}

impl<'a, 'ast> Visit<'ast> for FindMatch<'a> {
    fn visit_expr_match(&mut self, m: &'ast syn::ExprMatch) {
        if squash(&m.expr) == self.scrutinee {
            self.found.push(m.clone());
        }
        syn::visit::visit_expr_match(self, m);
    }
}

fn find_match(block: &syn::Block, scrutinee: &str, what: &str) -> Result<syn::ExprMatch, String> {
    let mut v = FindMatch { scrutinee, found: vec![] };
    v.visit_block(block);
    match v.found.len() {
        1 => Ok(v.found.pop().unwrap()),
        n => Err(format!("{what}: expected exactly one `match {scrutinee}`, found {n}")),
    }
}

fn last_seg(p: &syn::Path) -> String {
    p.segments.last().map(|s| s.ident.to_string()).unwrap_or_default()
}

/// Fine event kinds: (Lean constructor, EventKind variant, is the sub-kind `ModifyKind::Name(_)`).
const EV_KINDS: &[(&str, &str, bool)] = &[
    ("any", "Any", false),
    ("access", "Access", false),
    ("create", "Create", false),
    ("modifyName", "Modify", true),
    ("modifyOther", "Modify", false),
    ("remove", "Remove", false),
    ("other", "Other", false),
];

/// Does pattern `p` match the event kind (variant, is_name)?  Err = unrecognised pattern.
fn ev_pat_matches(p: &Pat, variant: &str, is_name: bool) -> Result<bool, String> {
    match p {
        Pat::Wild(_) => Ok(true),
        Pat::Paren(pp) => ev_pat_matches(&pp.pat, variant, is_name),
        Pat::Or(o) => {
            let mut any = false;
            for c in o.cases.iter() {
                any |= ev_pat_matches(c, variant, is_name)?;
            }
            Ok(any)
        }
        Pat::Path(pp) => {
            let v = last_seg(&pp.path);
            if !["Any", "Other"].contains(&v.as_str()) {
                return Err(format!("unit pattern `{}` is not EventKind::Any/Other", squash(p)));
            }
            Ok(v == variant)
        }
        Pat::Ident(i) if i.subpat.is_none() && i.by_ref.is_none() => {
            let v = i.ident.to_string();
            if !["Any", "Other"].contains(&v.as_str()) {
                return Err(format!("binding pattern `{v}` in `match event.kind`"));
            }
            Ok(v == variant)
        }
        Pat::TupleStruct(ts) => {
            let v = last_seg(&ts.path);
            if !["Access", "Create", "Modify", "Remove"].contains(&v.as_str()) || ts.elems.len() != 1 {
                return Err(format!("unrecognised pattern `{}`", squash(p)));
            }
            match &ts.elems[0] {
                Pat::Wild(_) => Ok(v == variant),
                Pat::TupleStruct(inner) if v == "Modify" && last_seg(&inner.path) == "Name" && inner.elems.len() == 1 && matches!(inner.elems[0], Pat::Wild(_)) => {
                    Ok(variant == "Modify" && is_name)
                }
                other => Err(format!("unrecognised sub-pattern `{}`", squash(other))),
            }
        }
        other => Err(format!("unrecognised pattern `{}`", squash(other))),
    }
}

fn unwrap_block(e: &Expr) -> &Expr {
    match e {
        Expr::Block(b) if b.block.stmts.len() == 1 => match &b.block.stmts[0] {
            syn::Stmt::Expr(inner, None) => unwrap_block(inner),
            _ => e,
        },
        Expr::Paren(p) => unwrap_block(&p.expr),
        _ => e,
    }
}

/// `vec![&*path, parent]` → ["path", "parent"]
fn vec_which(e: &Expr) -> Result<Vec<&'static str>, String> {
    let e = unwrap_block(e);
    let m = match e {
        Expr::Macro(m) if m.mac.path.is_ident("vec") => m,
        _ => return Err(format!("arm body `{}` is not a vec![..] of path / parent", squash(e))),
    };
    let elems = m
        .mac
        .parse_body_with(syn::punctuated::Punctuated::<Expr, syn::Token![,]>::parse_terminated)
        .map_err(|er| format!("vec! body: {er}"))?;
    let mut out = vec![];
    for x in elems.iter() {
        let s = squash(x);
        let s = s.trim_start_matches('&').trim_start_matches('*');
        match s {
            "path" => out.push("path"),
            "parent" => out.push("parent"),
            _ => return Err(format!("vec! element `{}` is neither path nor parent", squash(x))),
        }
    }
    Ok(out)
}

/// Arm body → Lean term of type `Arm`.
fn ev_arm(e: &Expr) -> Result<String, String> {
    let e = unwrap_block(e);
    let show = |v: &[&str]| format!("[{}]", v.iter().map(|w| format!(".{w}")).collect::<Vec<_>>().join(", "));
    match e {
        Expr::Return(r) if r.expr.is_none() => Ok(".ret".into()),
        Expr::Macro(_) => {
            let v = vec_which(e)?;
            if v.contains(&"parent") {
                return Err("`parent` used outside `match path.parent()`".into());
            }
            Ok(format!(".paths {} {}", show(&v), show(&v)))
        }
        Expr::Match(m) if squash(&m.expr) == "path.parent()" => {
            let (mut with, mut without) = (None, None);
            for arm in &m.arms {
                if arm.guard.is_some() {
                    return Err("guard in `match path.parent()`".into());
                }
                let p = squash(&arm.pat);
                let some_binder = p.strip_prefix("Some(").and_then(|r| r.strip_suffix(')')).map_or(false, |b| b == "parent" || b.starts_with('_'));
                if some_binder {
                    let v = vec_which(&arm.body)?;
                    if p != "Some(parent)" && v.contains(&"parent") {
                        return Err("`parent` used but not bound by `Some(parent)`".into());
                    }
                    with = Some(v);
                } else if p == "None" {
                    let v = vec_which(&arm.body)?;
                    if v.contains(&"parent") {
                        return Err("`parent` used in the None arm".into());
                    }
                    without = Some(v);
                } else {
                    return Err(format!("unrecognised pattern `{p}` in `match path.parent()`"));
                }
            }
            match (with, without) {
                (Some(w), Some(n)) => Ok(format!(".paths {} {}", show(&w), show(&n))),
                _ => Err("`match path.parent()` without both Some(parent) and None arms".into()),
            }
        }
        other => Err(format!("unrecognised arm body `{}`", squash(other))),
    }
}

const COMP_KINDS: &[(&str, &str)] = &[("pfx", "Prefix"), ("rootDir", "RootDir"), ("curDir", "CurDir"), ("parentDir", "ParentDir"), ("normal", "Normal")];

fn comp_pat_matches(p: &Pat, variant: &str) -> Result<bool, String> {
    match p {
        Pat::Wild(_) => Ok(true),
        Pat::Or(o) => {
            let mut any = false;
            for c in o.cases.iter() {
                any |= comp_pat_matches(c, variant)?;
            }
            Ok(any)
        }
        Pat::Path(pp) => Ok(last_seg(&pp.path) == variant),
        Pat::TupleStruct(ts) if ts.elems.len() == 1 => Ok(last_seg(&ts.path) == variant),
        other => Err(format!("unrecognised component pattern `{}`", squash(other))),
    }
}

fn comp_arm(e: &Expr) -> Result<&'static str, String> {
    let s = squash(unwrap_block(e));
    match s.as_str() {
        "id_builder.push(s.to_str()?)?" => Ok(".push"),
        "id_builder.pop()?" => Ok(".pop"),
        "continue" => Ok(".skip"),
        "returnNone" => Ok(".fail"),
        _ => Err(format!("unrecognised component arm body `{s}`")),
    }
}

pub fn gen(ctx: &mut Ctx) -> Result<String, String> {
    let file = ctx.file("src/hot_reloading/watcher.rs")?.clone();
    let mut out = String::from("import AmVerif.Model.WatchTypes\n\nnamespace AmVerif.Gen\nopen AmVerif.Model.Watch\n\n");

    // ---- event-kind table
    let f = find_fn(&file, "EventHandler for NotifyEventHandler", "handle_event")?;
    let m = find_match(f.block, "event.kind", "NotifyEventHandler::handle_event")?;
    out.push_str("/-- `match event.kind` of `NotifyEventHandler::handle_event`: first matching arm per kind. -/\ndef watchTable : EvKind → Arm\n");
    for (lean, variant, is_name) in EV_KINDS {
        let mut chosen = None;
        for arm in &m.arms {
            if arm.guard.is_some() {
                return Err("handle_event: guard in `match event.kind`".into());
            }
            if ev_pat_matches(&arm.pat, variant, *is_name).map_err(|e| format!("handle_event: {e}"))? {
                chosen = Some(ev_arm(&arm.body).map_err(|e| format!("handle_event ({variant}): {e}"))?);
                break;
            }
        }
        let body = chosen.ok_or_else(|| format!("handle_event: no arm matches EventKind::{variant}"))?;
        out.push_str(&format!("  | .{lean} => {body}\n"));
    }
    out.push('\n');

    // ---- component table of id_of_path
    let f = find_fn(&file, "", "id_of_path")?;
    let m = find_match(f.block, "comp", "id_of_path")?;
    out.push_str("/-- `match comp` in the loop of `id_of_path`. -/\ndef compTable : CompKind → CompAct\n");
    for (lean, variant) in COMP_KINDS {
        let mut chosen = None;
        for arm in &m.arms {
            if arm.guard.is_some() {
                return Err("id_of_path: guard in `match comp`".into());
            }
            if comp_pat_matches(&arm.pat, variant).map_err(|e| format!("id_of_path: {e}"))? {
                chosen = Some(comp_arm(&arm.body).map_err(|e| format!("id_of_path ({variant}): {e}"))?);
                break;
            }
        }
        let body = chosen.ok_or_else(|| format!("id_of_path: no arm matches Component::{variant}"))?;
        out.push_str(&format!("  | .{lean} => {body}\n"));
    }
    // what the loop iterates over: the parent of the path, stripped of the root
    let iter_ok = squash(f.block).contains("forcompinpath.parent()?.strip_prefix(root).ok()?.components()");
    out.push_str(&format!("\n/-- the loop of `id_of_path` runs over `path.parent()?.strip_prefix(root).ok()?.components()` -/\ndef idLoopOverStrippedParent : Bool := {}\n", iter_ok));
    out.push_str("\nend AmVerif.Gen\n");
    Ok(out)
}
