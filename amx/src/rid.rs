//! `ReloadId` / `AtomicReloadId` (src/entry.rs) → `Gen/Rid.lean`.
//!
//! Mini translator: straight-line bodies over one `usize` newtype, comparisons, a conditional
//! assignment to `*self`, and calls of `AtomicUsize` primitives with an explicit `Ordering`.
//! `ReloadId` methods become pure functions `Nat → … → Nat × ret` (state = the id);
//! `AtomicReloadId` methods become `Atom ret = Nat → ret × Nat` (state = the atomic cell), each
//! primitive being one indivisible step; the number of primitives per method is emitted too.

use crate::{find::find_fn, Ctx};
use quote::ToTokens;
use syn::{Expr, Stmt};

const ATOMIC_PRIMS: &[&str] = &["load", "store", "swap", "fetch_add", "fetch_sub", "fetch_max", "fetch_min"];

#[derive(Clone, Copy, PartialEq, Debug)]
enum Ty { Nat, Bool, Unit }

struct Tr<'a> {
    owner: &'a str,
    atomic: bool,
    binds: Vec<String>,
    fresh: usize,
    prims: Vec<(String, String)>, // (prim, ordering) in evaluation order
    calls: Vec<String>,           // sibling methods called
}

fn path_str(p: &syn::Path) -> String {
    p.segments.iter().map(|s| s.ident.to_string()).collect::<Vec<_>>().join("::")
}

impl<'a> Tr<'a> {
    fn refuse<T>(&self, what: &str, e: &dyn ToTokens) -> Result<T, String> {
        Err(format!("{}: unsupported {what}: `{}`", self.owner, e.to_token_stream()))
    }

    fn expr(&mut self, e: &Expr) -> Result<(String, Ty), String> {
        match e {
            Expr::Paren(p) => self.expr(&p.expr),
            Expr::Group(g) => self.expr(&g.expr),
            Expr::Lit(l) => match &l.lit {
                syn::Lit::Int(i) => Ok((i.base10_digits().to_string(), Ty::Nat)),
                syn::Lit::Bool(b) => Ok((b.value.to_string(), Ty::Bool)),
                _ => self.refuse("literal", e),
            },
            Expr::Path(p) => {
                let s = path_str(&p.path);
                match s.as_str() {
                    "self" => Ok(("self_".into(), Ty::Nat)),
                    "ReloadId::NEVER" | "Self::NEVER" => Ok(("ReloadId_NEVER".into(), Ty::Nat)),
                    _ if p.path.segments.len() == 1 => Ok((s, Ty::Nat)), // local / parameter (types fixed up by caller)
                    _ => self.refuse("path", e),
                }
            }
            Expr::Unary(u) => match u.op {
                syn::UnOp::Deref(_) => self.expr(&u.expr),
                syn::UnOp::Not(_) => { let (a, _) = self.expr(&u.expr)?; Ok((format!("(!{a})"), Ty::Bool)) }
                _ => self.refuse("unary operator", e),
            },
            Expr::Field(f) => match &f.member {
                syn::Member::Unnamed(i) if i.index == 0 => self.expr(&f.base),
                _ => self.refuse("field access", e),
            },
            Expr::Binary(b) => {
                let (l, _) = self.expr(&b.left)?;
                let (r, _) = self.expr(&b.right)?;
                use syn::BinOp::*;
                let (op, ty) = match b.op {
                    Gt(_) => (">", Ty::Bool), Ge(_) => ("≥", Ty::Bool), Lt(_) => ("<", Ty::Bool), Le(_) => ("≤", Ty::Bool),
                    Eq(_) => ("=", Ty::Bool), Ne(_) => ("≠", Ty::Bool),
                    Add(_) => ("+", Ty::Nat), Sub(_) => ("-", Ty::Nat),
                    _ => return self.refuse("binary operator", e),
                };
                if ty == Ty::Bool { Ok((format!("(decide ({l} {op} {r}))"), Ty::Bool)) } else { Ok((format!("({l} {op} {r})"), Ty::Nat)) }
            }
            Expr::Call(c) => {
                let f = match &*c.func { Expr::Path(p) => path_str(&p.path), _ => return self.refuse("callee", e) };
                let args: Vec<&Expr> = c.args.iter().collect();
                match (f.as_str(), args.len()) {
                    // newtype constructors are the identity on the model
                    ("ReloadId", 1) | ("Self", 1) | ("AtomicUsize::new", 1) => self.expr(args[0]),
                    ("Self::with_value", 1) | ("AtomicReloadId::with_value", 1) => {
                        let (a, _) = self.expr(args[0])?;
                        Ok((format!("(AtomicReloadId_with_value {a})"), Ty::Nat))
                    }
                    _ => self.refuse("call", e),
                }
            }
            Expr::MethodCall(m) => {
                let name = m.method.to_string();
                let recv = m.receiver.to_token_stream().to_string().replace(' ', "");
                if self.atomic && recv == "self.0" && ATOMIC_PRIMS.contains(&name.as_str()) {
                    let mut args: Vec<&Expr> = m.args.iter().collect();
                    let ord = match args.pop() {
                        Some(Expr::Path(p)) if path_str(&p.path).starts_with("Ordering::") => path_str(&p.path)["Ordering::".len()..].to_string(),
                        _ => return self.refuse("atomic call without explicit Ordering", e),
                    };
                    let mut a = vec![];
                    for x in args { a.push(self.expr(x)?.0); }
                    let v = format!("r{}", self.fresh); self.fresh += 1;
                    self.binds.push(format!("let ({v}, cell) := Atom.{} Ord.{ord} {} cell", camel(&name), a.join(" ")));
                    self.prims.push((name.clone(), ord));
                    let ty = if name == "store" { Ty::Unit } else { Ty::Nat };
                    Ok((v, ty))
                } else if self.atomic && recv == "self" {
                    let mut a = vec![];
                    for x in m.args.iter() { a.push(self.expr(x)?.0); }
                    let v = format!("r{}", self.fresh); self.fresh += 1;
                    self.binds.push(format!("let ({v}, cell) := AtomicReloadId_{name} {} cell", a.join(" ")));
                    self.calls.push(name);
                    Ok((v, Ty::Nat))
                } else {
                    self.refuse("method call", e)
                }
            }
            _ => self.refuse("expression", e),
        }
    }
}

fn camel(s: &str) -> String {
    let mut out = String::new();
    let mut up = false;
    for c in s.chars() {
        if c == '_' { up = true } else if up { out.push(c.to_ascii_uppercase()); up = false } else { out.push(c) }
    }
    out
}

struct MethodOut { lean: String, prims: Vec<(String, String)>, calls: Vec<String> }

fn ret_ty(sig: &syn::Signature) -> Ty {
    match &sig.output {
        syn::ReturnType::Default => Ty::Unit,
        syn::ReturnType::Type(_, t) => {
            let s = t.to_token_stream().to_string();
            if s == "bool" { Ty::Bool } else { Ty::Nat }
        }
    }
}

fn lean_ty(t: Ty) -> &'static str { match t { Ty::Nat => "Nat", Ty::Bool => "Bool", Ty::Unit => "Unit" } }

fn params(sig: &syn::Signature) -> Result<Vec<String>, String> {
    let mut v = vec![];
    for a in sig.inputs.iter() {
        if let syn::FnArg::Typed(t) = a {
            match &*t.pat { syn::Pat::Ident(i) => v.push(i.ident.to_string()), _ => return Err(format!("unsupported parameter pattern in {}", sig.ident)) }
        }
    }
    Ok(v)
}

/// `&mut self` method over the plain id.
fn pure_method(file: &syn::File, name: &str) -> Result<MethodOut, String> {
    let f = find_fn(file, "ReloadId", name)?;
    let mut tr = Tr { owner: "ReloadId", atomic: false, binds: vec![], fresh: 0, prims: vec![], calls: vec![] };
    let ps = params(f.sig)?;
    let rt = ret_ty(f.sig);
    let mut lines: Vec<String> = vec![];
    let mut tail: Option<String> = None;
    let n = f.block.stmts.len();
    for (k, st) in f.block.stmts.iter().enumerate() {
        match st {
            Stmt::Local(l) => {
                let id = match &l.pat { syn::Pat::Ident(i) => i.ident.to_string(), _ => return tr.refuse("let pattern", &l.pat) };
                let init = l.init.as_ref().ok_or("let without initialiser")?;
                let (e, _) = tr.expr(&init.expr)?;
                lines.push(format!("let {id} := {e}"));
            }
            Stmt::Expr(Expr::If(i), _) => {
                // `if c { *self = e; }` only
                if i.else_branch.is_some() || i.then_branch.stmts.len() != 1 { return tr.refuse("if form", i); }
                let (c, _) = tr.expr(&i.cond)?;
                match &i.then_branch.stmts[0] {
                    Stmt::Expr(Expr::Assign(a), _) => {
                        let lhs = a.left.to_token_stream().to_string().replace(' ', "");
                        if lhs != "*self" { return tr.refuse("assignment target", &a.left); }
                        let (v, _) = tr.expr(&a.right)?;
                        lines.push(format!("let self_ := if {c} then {v} else self_"));
                    }
                    other => return tr.refuse("statement in if", other),
                }
            }
            Stmt::Expr(e, None) if k + 1 == n => { tail = Some(tr.expr(e)?.0); }
            other => return tr.refuse("statement", other),
        }
    }
    let tail = tail.unwrap_or_else(|| "()".into());
    let mut lean = format!("def ReloadId_{name} (self_ {} : Nat) : Nat × {} :=\n", ps.join(" "), lean_ty(rt));
    if ps.is_empty() { lean = format!("def ReloadId_{name} (self_ : Nat) : Nat × {} :=\n", lean_ty(rt)); }
    for l in &lines { lean.push_str(&format!("  {l}\n")); }
    lean.push_str(&format!("  (self_, {tail})\n"));
    Ok(MethodOut { lean, prims: vec![], calls: vec![] })
}

/// `&self` method over the atomic cell; `const fn` constructors are pure.
fn atomic_method(file: &syn::File, name: &str) -> Result<MethodOut, String> {
    let f = find_fn(file, "AtomicReloadId", name)?;
    let mut tr = Tr { owner: "AtomicReloadId", atomic: true, binds: vec![], fresh: 0, prims: vec![], calls: vec![] };
    let ps = params(f.sig)?;
    let has_self = f.sig.inputs.iter().any(|a| matches!(a, syn::FnArg::Receiver(_)));
    let rt = if has_self { ret_ty(f.sig) } else { Ty::Nat };
    let n = f.block.stmts.len();
    let mut tail = None;
    for (k, st) in f.block.stmts.iter().enumerate() {
        match st {
            Stmt::Expr(e, None) if k + 1 == n => { let (t, ty) = tr.expr(e)?; tail = Some(if ty == Ty::Unit || rt == Ty::Unit { "()".to_string() } else { t }); }
            Stmt::Expr(e, Some(_)) => { tr.expr(e)?; }
            other => return tr.refuse("statement", other),
        }
    }
    let tail = tail.unwrap_or_else(|| "()".into());
    let mut lean;
    if has_self {
        lean = format!("def AtomicReloadId_{name} {}: Atom {} := fun cell =>\n", ps.iter().map(|p| format!("({p} : Nat) ")).collect::<String>(), lean_ty(rt));
        for b in &tr.binds { lean.push_str(&format!("  {b}\n")); }
        lean.push_str(&format!("  ({tail}, cell)\n"));
    } else {
        if !tr.binds.is_empty() { return Err(format!("AtomicReloadId::{name}: constructor touches the cell")); }
        lean = format!("def AtomicReloadId_{name} {}: Nat :=\n  {tail}\n", ps.iter().map(|p| format!("({p} : Nat) ")).collect::<String>());
    }
    Ok(MethodOut { lean, prims: tr.prims, calls: tr.calls })
}

pub fn gen(ctx: &mut Ctx) -> Result<String, String> {
    let file = ctx.file("src/entry.rs")?.clone();
    let mut out = String::from("import AmVerif.Model.Atom\n\nnamespace AmVerif.Gen\nopen AmVerif.Model\n\n");

    // const NEVER
    let never = crate::find::find_const(&file, "ReloadId", "NEVER")?;
    let v = match never {
        Expr::Call(c) if c.args.len() == 1 => match &c.args[0] { Expr::Lit(l) => l.lit.to_token_stream().to_string(), _ => return Err("ReloadId::NEVER: not a literal".into()) },
        _ => return Err("ReloadId::NEVER: unexpected form".into()),
    };
    out.push_str(&format!("def ReloadId_NEVER : Nat := {v}\n\n"));

    out.push_str(&pure_method(&file, "update")?.lean);
    out.push('\n');

    // order matters: callees first
    let order = ["with_value", "new", "load", "store", "increment", "swap", "fetch_max", "update"];
    let mut prim_tbl: Vec<(String, Vec<(String, String)>, Vec<String>)> = vec![];
    for m in order {
        let mo = atomic_method(&file, m)?;
        out.push_str(&mo.lean);
        out.push('\n');
        prim_tbl.push((m.to_string(), mo.prims, mo.calls));
    }
    // transitive primitive list per method
    fn prims_of(m: &str, tbl: &[(String, Vec<(String, String)>, Vec<String>)], depth: usize) -> Vec<(String, String)> {
        if depth > 8 { return vec![]; }
        let (_, p, c) = tbl.iter().find(|(n, _, _)| n == m).unwrap();
        let mut v = p.clone();
        for callee in c { v.extend(prims_of(callee, tbl, depth + 1)); }
        v
    }
    out.push_str("/-- (method, primitives executed, in order, with their memory ordering) -/\ndef atomicPrims : List (AtomicMethod × List (AtomPrim × Ord)) := [\n");
    let ms = ["load", "store", "increment", "swap", "fetch_max", "update"];
    for (k, m) in ms.iter().enumerate() {
        let ps = prims_of(m, &prim_tbl, 0);
        let l: Vec<String> = ps.iter().map(|(p, o)| format!("(.{}, .{})", camel(p), o)).collect();
        out.push_str(&format!("  (.{}, [{}]){}\n", camel(m), l.join(", "), if k + 1 < ms.len() { "," } else { "" }));
    }
    out.push_str("]\n\nend AmVerif.Gen\n");
    Ok(out)
}
