//! Decision tables and small control-flow bodies → `Gen/Tables.lean`.
//!
//! Every item is matched against the exact syntactic shape the translator understands; anything
//! else is refused.

use crate::{find::find_fn, Ctx};
use quote::ToTokens;
use syn::{Expr, Pat, Stmt};

fn ts(t: &dyn ToTokens) -> String { t.to_token_stream().to_string() }
fn squash(t: &dyn ToTokens) -> String { ts(t).replace(' ', "") }

// ------------------------------------------------------------------ ErrorKind::or

fn variant_lean(name: &str) -> Result<&'static str, String> {
    match name {
        "NoDefaultValue" => Ok("noDefault"),
        "Io" => Ok("io"),
        "Conversion" => Ok("conv"),
        _ => Err(format!("ErrorKind::or: unknown variant `{name}`")),
    }
}

/// Returns the alternatives of a pattern as Lean patterns (or-patterns are expanded) and collects
/// `name := scrutinee` bindings (`x @ P`, plain identifiers).
fn or_pat(p: &Pat, scrut: &str, binds: &mut Vec<String>) -> Result<Vec<String>, String> {
    match p {
        Pat::Wild(_) => Ok(vec!["_".into()]),
        Pat::Paren(pp) => or_pat(&pp.pat, scrut, binds),
        Pat::Or(o) => {
            let mut alts = vec![];
            for c in &o.cases {
                let mut inner = vec![];
                alts.extend(or_pat(c, scrut, &mut inner)?);
                if !inner.is_empty() { return Err("ErrorKind::or: binding inside an or-pattern".into()); }
            }
            Ok(alts)
        }
        Pat::Ident(i) => {
            let name = i.ident.to_string();
            if let Some((_, sub)) = &i.subpat {
                binds.push(format!("let {name} := {scrut}"));
                let mut inner = vec![];
                let r = or_pat(sub, scrut, &mut inner)?;
                if !inner.is_empty() { return Err("ErrorKind::or: nested binding under `@`".into()); }
                Ok(r)
            } else if name.chars().next().map_or(false, |c| c.is_uppercase()) {
                Ok(vec![format!(".{}", variant_lean(&name)?)])
            } else {
                binds.push(format!("let {name} := {scrut}"));
                Ok(vec!["_".into()])
            }
        }
        Pat::Path(pp) => Ok(vec![format!(".{}", variant_lean(&pp.path.segments.last().unwrap().ident.to_string())?)]),
        Pat::TupleStruct(t) => {
            let v = variant_lean(&t.path.segments.last().unwrap().ident.to_string())?;
            if t.elems.len() != 1 { return Err("ErrorKind::or: variant arity".into()); }
            match &t.elems[0] {
                Pat::Wild(_) => Ok(vec![format!(".{v} _")]),
                Pat::Ident(i) if i.subpat.is_none() => Ok(vec![format!(".{v} {}", i.ident)]),
                other => Err(format!("ErrorKind::or: unsupported sub-pattern `{}`", ts(other))),
            }
        }
        other => Err(format!("ErrorKind::or: unsupported pattern `{}`", ts(other))),
    }
}

fn gen_error_or(ctx: &mut Ctx) -> Result<String, String> {
    let file = ctx.file("src/error.rs")?.clone();
    let f = find_fn(&file, "ErrorKind", "or")?;
    let params: Vec<String> = f.sig.inputs.iter().map(|a| match a {
        syn::FnArg::Receiver(_) => "self_".to_string(),
        syn::FnArg::Typed(t) => ts(&t.pat),
    }).collect();
    if params.len() != 2 { return Err("ErrorKind::or: expected (self, other)".into()); }
    // body: [use ...;] match (self, other) { arms }
    let m = f.block.stmts.iter().filter_map(|s| match s { Stmt::Expr(Expr::Match(m), _) => Some(m), _ => None }).next()
        .ok_or("ErrorKind::or: no match expression")?;
    for s in &f.block.stmts {
        match s { Stmt::Item(syn::Item::Use(_)) | Stmt::Expr(Expr::Match(_), _) => {}, other => return Err(format!("ErrorKind::or: unexpected statement `{}`", ts(other))) }
    }
    if squash(&m.expr) != format!("(self,{})", params[1]) { return Err(format!("ErrorKind::or: scrutinee is `{}`", ts(&m.expr))); }
    let mut out = String::new();
    let n = m.arms.len();
    let mut last_irrefutable = false;
    for (k, arm) in m.arms.iter().enumerate() {
        let (p1, p2) = match &arm.pat { Pat::Tuple(t) if t.elems.len() == 2 => (&t.elems[0], &t.elems[1]), other => return Err(format!("ErrorKind::or: arm pattern `{}`", ts(other))) };
        let mut binds = vec![];
        let a1 = or_pat(p1, "self_", &mut binds)?;
        let a2 = or_pat(p2, &params[1], &mut binds)?;
        let body = match &*arm.body { Expr::Path(p) if p.path.segments.len() == 1 => p.path.segments[0].ident.to_string(), other => return Err(format!("ErrorKind::or: arm body `{}`", ts(other))) };
        let guard = match &arm.guard {
            None => None,
            Some((_, g)) => {
                // `<x>.kind() == io::ErrorKind::NotFound`
                let s = squash(g);
                let pre = s.strip_suffix(".kind()==io::ErrorKind::NotFound").ok_or(format!("ErrorKind::or: unsupported guard `{}`", ts(g)))?;
                if a1.len() * a2.len() != 1 { return Err("ErrorKind::or: guard on an or-pattern".into()); }
                Some(format!("{pre}.notFound"))
            }
        };
        let irrefutable = a1 == ["_"] && a2 == ["_"];
        last_irrefutable = irrefutable && guard.is_none();
        out.push_str(&format!("def errorOr_arm{k} (self_ {} : EK) : Option EK :=\n  match self_, {} with\n", params[1], params[1]));
        for l1 in &a1 { for l2 in &a2 {
            out.push_str(&format!("  | {l1}, {l2} =>\n"));
            for b in &binds { out.push_str(&format!("    {b}\n")); }
            match &guard {
                Some(g) => out.push_str(&format!("    if {g} then some {body} else none\n")),
                None => out.push_str(&format!("    some {body}\n")),
            }
        } }
        if !irrefutable { out.push_str("  | _, _ => none\n"); }
        out.push('\n');
    }
    if !last_irrefutable { return Err("ErrorKind::or: last arm is not irrefutable".into()); }
    out.push_str(&format!("/-- `ErrorKind::or`: first matching arm, in source order. -/\ndef errorOr (self_ {} : EK) : EK :=\n", params[1]));
    for k in 0..n - 1 {
        out.push_str(&format!("{}match errorOr_arm{k} self_ {} with\n{}| some r => r\n{}| none =>\n", "  ".repeat(k + 1), params[1], "  ".repeat(k + 1), "  ".repeat(k + 1)));
    }
    out.push_str(&format!("{}(errorOr_arm{} self_ {}).getD self_\n\n", "  ".repeat(n), n - 1, params[1]));
    Ok(out)
}

// ------------------------------------------------------------------ load_from_source

fn gen_load_from_source(ctx: &mut Ctx) -> Result<String, String> {
    let file = ctx.file("src/asset.rs")?.clone();
    let f = find_fn(&file, "", "load_from_source")?;
    let st = &f.block.stmts;
    let bad = |what: &str| Err::<String, String>(format!("load_from_source: unexpected shape ({what})"));
    if st.len() != 4 { return bad("statement count"); }
    // 1. let load_with_ext = |ext| -> Result<T, ErrorKind> { let asset = source.read(id, ext)?.with_cow(|content| T::Loader::load(content, ext))?; Ok(asset) };
    let closure = match &st[0] { Stmt::Local(l) if squash(&l.pat) == "load_with_ext" => match l.init.as_ref().map(|i| &*i.expr) { Some(Expr::Closure(c)) => c, _ => return bad("load_with_ext is not a closure") }, _ => return bad("first statement") };
    let cb = match &*closure.body { Expr::Block(b) => &b.block.stmts, _ => return bad("closure body") };
    if cb.len() != 2 { return bad("closure statement count"); }
    // two recognised spellings of the same closure: with `?` (the `From` impls of ErrorKind turn an io::Error into `Io`, a
    // BoxedError into `Conversion` — checked below), or with the two conversions written out as explicit matches
    let explicit = squash(&cb[0]) == "letcontent=matchsource.read(id,ext){Ok(content)=>content,Err(err)=>returnErr(ErrorKind::Io(err)),};"
        && squash(&cb[1]) == "matchcontent.with_cow(|content|T::Loader::load(content,ext)){Ok(asset)=>Ok(asset),Err(err)=>Err(ErrorKind::Conversion(err)),}";
    if !explicit {
        let chain = match &cb[0] { Stmt::Local(l) if squash(&l.pat) == "asset" => squash(&l.init.as_ref().unwrap().expr), _ => return bad("closure let") };
        if chain != "source.read(id,ext)?.with_cow(|content|T::Loader::load(content,ext))?" { return bad(&format!("read/decode chain is `{chain}`")); }
        if squash(&cb[1]) != "Ok(asset)" { return bad("closure result"); }
        let err_src: String = std::fs::read_to_string(ctx.repo.join("src/error.rs")).map_err(|e| e.to_string())?.chars().filter(|c| !c.is_whitespace()).collect();
        if !(err_src.contains("implFrom<io::Error>forErrorKind{fnfrom(err:io::Error)->Self{Self::Io(err)}}") && err_src.contains("implFrom<BoxedError>forErrorKind{fnfrom(err:BoxedError)->Self{Self::Conversion(err)}}")) { return bad("the `From` impls of ErrorKind behind `?` are not the plain `Io` / `Conversion` wrappers"); }
    }
    // 2. let mut error = ErrorKind::NoDefaultValue;
    let init = match &st[1] { Stmt::Local(l) if squash(&l.pat) == "muterror" => squash(&l.init.as_ref().unwrap().expr), _ => return bad("error initialiser") };
    let init_lean = match init.as_str() { "ErrorKind::NoDefaultValue" => ".noDefault", _ => return bad("initial error value") };
    // 3. for ext in T::EXTENSIONS { match load_with_ext(ext) { Err(err) => error = err.or(error), Ok(asset) => return Ok(asset), } }
    let fl = match &st[2] { Stmt::Expr(Expr::ForLoop(fl), _) => fl, _ => return bad("for loop") };
    if squash(&fl.pat) != "ext" || squash(&fl.expr) != "T::EXTENSIONS" { return bad("loop header"); }
    if fl.body.stmts.len() != 1 { return bad("loop body"); }
    let m = match &fl.body.stmts[0] { Stmt::Expr(Expr::Match(m), _) => m, _ => return bad("loop match") };
    if squash(&m.expr) != "load_with_ext(ext)" { return bad("loop scrutinee"); }
    let mut fold = None;
    let mut ok_returns = false;
    for arm in &m.arms {
        match squash(&arm.pat).as_str() {
            "Err(err)" => {
                fold = Some(match squash(&arm.body).as_str() {
                    "error=err.or(error)" => "errorOr err error",
                    "error=error.or(err)" => "errorOr error err",
                    other => return bad(&format!("error fold `{other}`")),
                });
            }
            "Ok(asset)" => { if squash(&arm.body) != "returnOk(asset)" { return bad("Ok arm"); } ok_returns = true; }
            other => return bad(&format!("arm `{other}`")),
        }
    }
    let fold = fold.ok_or("load_from_source: no Err arm")?;
    if !ok_returns { return bad("no Ok arm"); }
    // 4. T::default_value(id, error.into())
    if squash(&st[3]) != "T::default_value(id,error.into())" { return bad("final default_value call"); }
    Ok(format!(
"/-- The closure `load_with_ext` in continuation-passing style (`readK` performs the read): read,
then decode; `?` turns an I/O error into `Io`, a loader error into `Conversion`. -/
def loadWithExtK {{α ρ : Type}} (readK : String → (Except IoErr (List UInt8) → ρ) → ρ)
    (decode : List UInt8 → String → Except String α) (ext : String) (k : Except EK α → ρ) : ρ :=
  readK ext fun r =>
    match r with
    | .error e => k (.error (.io e))
    | .ok content =>
      match decode content ext with
      | .error t => k (.error (.conv t))
      | .ok asset => k (.ok asset)

def loadInitError : EK := {init_lean}

/-- The `for ext in T::EXTENSIONS` loop: the first `Ok` returns (later extensions are not even
read); errors are folded exactly as the source says. -/
def loadFoldK {{α ρ : Type}} (loadWithExt : String → (Except EK α → ρ) → ρ) :
    EK → List String → (Except EK α → ρ) → ρ
  | error, [], k => k (.error error)
  | error, ext :: rest, k =>
    loadWithExt ext fun r =>
      match r with
      | .error err => loadFoldK loadWithExt ({fold}) rest k
      | .ok asset => k (.ok asset)

/-- `load_from_source`: the loop, then `T::default_value(id, error)`. -/
def loadFromSourceK {{α ρ : Type}} (readK : String → (Except IoErr (List UInt8) → ρ) → ρ)
    (decode : List UInt8 → String → Except String α) (exts : List String)
    (defaultValue : EK → Except EK α) (k : Except EK α → ρ) : ρ :=
  loadFoldK (loadWithExtK readK decode) loadInitError exts fun r =>
    match r with
    | .ok asset => k (.ok asset)
    | .error error => k (defaultValue error)

"))
}

// ------------------------------------------------------------------ boolean conditions

/// `T::HOT_RELOADED && _mutable()` style conditions → Lean Bool expression over named atoms.
fn bool_expr(e: &Expr, atoms: &[(&str, &str)]) -> Result<String, String> {
    match e {
        Expr::Paren(p) => bool_expr(&p.expr, atoms),
        Expr::Binary(b) => {
            let op = match b.op { syn::BinOp::And(_) => "&&", syn::BinOp::Or(_) => "||", _ => return Err(format!("unsupported operator in condition `{}`", ts(e))) };
            Ok(format!("({} {op} {})", bool_expr(&b.left, atoms)?, bool_expr(&b.right, atoms)?))
        }
        Expr::Unary(u) if matches!(u.op, syn::UnOp::Not(_)) => Ok(format!("(!{})", bool_expr(&u.expr, atoms)?)),
        other => {
            let s = squash(other);
            atoms.iter().find(|(src, _)| *src == s).map(|(_, l)| l.to_string()).ok_or(format!("unknown atom `{s}` in condition"))
        }
    }
}

fn gen_conditions(ctx: &mut Ctx) -> Result<String, String> {
    let mut out = String::new();
    // CacheEntry::new: `if T::HOT_RELOADED && _mutable() { new_dynamic } else { new_static }`
    let entry = ctx.file("src/entry.rs")?.clone();
    let f = find_fn(&entry, "CacheEntry", "new")?;
    let mut cond = None;
    for s in &f.block.stmts {
        if let Stmt::Local(l) = s {
            if let Some(init) = &l.init {
                if let Expr::If(i) = &*init.expr {
                    let then_dyn = squash(&i.then_branch).contains("new_dynamic");
                    let else_static = i.else_branch.as_ref().map_or(false, |(_, e)| squash(e).contains("new_static"));
                    if then_dyn && else_static {
                        cond = Some(bool_expr(&i.cond, &[("T::HOT_RELOADED", "typeHot"), ("_mutable()", "mutable_")])?);
                    } else if squash(&i.then_branch).contains("new_static") && i.else_branch.as_ref().map_or(false, |(_, e)| squash(e).contains("new_dynamic")) {
                        cond = Some(format!("(!{})", bool_expr(&i.cond, &[("T::HOT_RELOADED", "typeHot"), ("_mutable()", "mutable_")])?));
                    }
                }
            }
        }
    }
    let cond = cond.ok_or("CacheEntry::new: dynamic/static choice not found")?;
    out.push_str(&format!("/-- `CacheEntry::new`: is the new entry dynamic (lock + reload id)? -/\ndef entryDynamic (typeHot mutable_ : Bool) : Bool := {cond}\n\n"));

    // the `_mutable` closures at the two creation sites
    let key = ctx.file("src/key.rs")?.clone();
    let le = crate::find::find_nested_fn(&key, "Inner", "of_asset", "load_entry")?;
    let src = squash(le.block);
    let m1 = if src.contains("CacheEntry::new(asset,id,||cache.is_hot_reloaded())") { "hasReloader" } else { return Err("key.rs load_entry: CacheEntry::new call not recognised".into()) };
    let wraps = src.contains("Err(err)=>Err(Error::new(id,err))");
    if !wraps { return Err("key.rs load_entry: error arm is not `Err(Error::new(id, err))`".into()); }
    let any = ctx.file("src/anycache.rs")?.clone();
    let aa = find_fn(&any, "CacheExt", "add_any")?;
    let aab = squash(aa.block);
    let m2 = if aab.contains("CacheEntry::new(asset,id,||self._has_reloader())") { "hasReloader" } else if aab.contains("CacheEntry::new(asset,id,||false)") { "false" } else { return Err("add_any: CacheEntry::new call not recognised".into()) };
    let ihr = find_fn(&any, "AnyCache", "is_hot_reloaded")?;
    if squash(ihr.block) != "{self.cache._has_reloader()}" { return Err("AnyCache::is_hot_reloaded: unexpected body".into()); }
    out.push_str(&format!("/-- entries created by a load: `CacheEntry::new(asset, id, || cache.is_hot_reloaded())` -/\ndef loadedEntryDynamic (typeHot hasReloader : Bool) : Bool := entryDynamic typeHot {m1}\n\n"));
    out.push_str(&format!("/-- entries created by `get_or_insert` (`add_any`): `CacheEntry::new(asset, id, || self._has_reloader())` -/\ndef insertedEntryDynamic (typeHot hasReloader : Bool) : Bool := entryDynamic typeHot {m2}\n\n"));
    out.push_str("/-- a failed `Compound::load` is reported as `Error::new(own id, reason)` -/\ndef loadErrorWrapsOwnId : Bool := true\n\n");

    // get_cached_entry_inner / load_owned_entry / load_and_record: `if typ.is_hot_reloaded() { if let Some(reloader) = … {`
    let nested_cond = |owner: &str, name: &str, file: &syn::File| -> Result<(), String> {
        let f = find_fn(file, owner, name)?;
        for s in &f.block.stmts {
            if let Stmt::Expr(Expr::If(i), _) = s {
                if squash(&i.cond) == "typ.is_hot_reloaded()" {
                    if let Some(Stmt::Expr(Expr::If(j), _)) = i.then_branch.stmts.first() {
                        let c = squash(&j.cond);
                        if c == "letSome(reloader)=self.reloader()" || c == "letSome(reloader)=cache.reloader()" { return Ok(()); }
                    }
                }
            }
        }
        Err(format!("{owner}::{name}: `if typ.is_hot_reloaded() {{ if let Some(reloader) = … ` not found"))
    };
    nested_cond("Cache for T", "get_cached_entry_inner", &any)?;
    nested_cond("Cache for T", "load_owned_entry", &any)?;
    let asset = ctx.file("src/asset.rs")?.clone();
    nested_cond("", "load_and_record", &asset)?;
    out.push_str("/-- look-ups (`get_cached_entry_inner`, `load_owned_entry`) record an asset dependency, and\n`load_and_record` opens a recording frame, iff the type is hot-reloaded and the cache has a reloader -/\ndef recordsAsset (typeHot hasReloader : Bool) : Bool := typeHot && hasReloader\n\n");
    // load_and_record registers only on success
    let lar = squash(find_fn(&asset, "", "load_and_record")?.block);
    let to_parent = if lar.contains("ifentry.is_ok(){reloader.add_asset(id,deps,typ);}returnentry;") { false }
        else if lar.contains("ifentry.is_ok(){reloader.add_asset(id,deps,typ);}else{crate::hot_reloading::records::add_records(reloader,&deps);}returnentry;") { true }
        else { return Err("load_and_record: `if entry.is_ok() { reloader.add_asset(..) } [else { records::add_records(reloader, &deps) }] return entry;` not found".into()) };
    out.push_str("/-- `load_and_record` tells the reloader about an asset only when its load succeeded -/\ndef registersOnlyOnOk : Bool := true\n\n");
    out.push_str(&format!("/-- what a failed (hot, recorded) load read is handed to the enclosing record (`records::add_records`) -/\ndef failedLoadRecordsToParent : Bool := {to_parent}\n\n"));
    if to_parent {
        let rec = ctx.file("src/hot_reloading/records.rs")?.clone();
        let ar = squash(find_fn(&rec, "", "add_records")?.block);
        if !ar.contains("ifrecorder.reloader==reloader{recorder.records.0.extend(deps.iter().cloned());}") { return Err("records::add_records: unexpected body".into()); }
    }
    // `impl<T: Compound> Compound for Arc<T>`: HOT_RELOADED is T's
    {
        let asset_src: String = std::fs::read_to_string(ctx.repo.join("src/asset.rs")).map_err(|e| e.to_string())?.chars().filter(|c| !c.is_whitespace()).collect();
        let start = asset_src.find("impl<T>CompoundforArc<T>whereT:Compound,{").ok_or("asset.rs: `impl<T> Compound for Arc<T>` not found")?;
        let body = &asset_src[start..];
        let end = body.find("impl<T>NotHotReloadedforArc<T>").unwrap_or(body.len().min(600));
        let inherits = body[..end].contains("constHOT_RELOADED:bool=T::HOT_RELOADED;");
        out.push_str(&format!("/-- `Arc<T>` is hot-reloaded iff `T` is (`const HOT_RELOADED: bool = T::HOT_RELOADED` in `impl Compound for Arc<T>`) -/\ndef arcInheritsHotReloaded : Bool := {inherits}\n\n"));
    }
    // Record::insert_*: every insertion is guarded by the identity of the reloader
    {
        let rec = ctx.file("src/hot_reloading/records.rs")?.clone();
        for m in ["insert_asset", "insert_file", "insert_dir"] {
            let b = squash(find_fn(&rec, "Record", m)?.block);
            if !(b.starts_with("{ifself.reloader==reloader{self.records.0.insert(") && b.ends_with(");}}")) { return Err(format!("Record::{m}: not guarded by `if self.reloader == reloader`: `{b}`")); }
        }
        out.push_str("/-- `Record::insert_{asset,file,dir}` record only for the reloader that installed the record -/\ndef recordChecksReloaderIdentity : Bool := true\n\n");
    }
    // reload_untyped / DepsGraph::reload
    let ru = squash(find_fn(&any, "AnyCache", "reload_untyped")?.block);
    let skips_static = ru.contains("if!handle.is_dynamic(){returnNone;}");
    let keeps_new = if ru.contains("Err(err)=>{log::warn!(\"Errorreloading\\\"{}\\\":{}\",err.id(),err.reason());None}") { false }
        else if ru.contains("Some((deps,true))") && ru.contains("Some((deps,false))") { true }
        else { return Err("reload_untyped: result arms not recognised".into()) };
    let catches_panic = ru.contains("catch_unwind");
    let dg = ctx.file("src/hot_reloading/dependencies.rs")?.clone();
    let rl = squash(find_fn(&dg, "DepsGraph", "reload")?.block);
    if keeps_new {
        if !rl.contains("Some((new_deps,true))=>self.insert(Dependency::Asset(key),new_deps,typ),") || !rl.contains("Some((new_deps,false))=>self.add_deps(Dependency::Asset(key),new_deps),") { return Err("DepsGraph::reload: arms not recognised".into()); }
        let ad = squash(find_fn(&dg, "DepsGraph", "add_deps")?.block);
        if ad != "{forkeyindeps.iter(){letentry=self.0.entry(key.clone()).or_default();entry.rdeps.insert(asset_key.clone());}ifletSome(entry)=self.0.get_mut(&asset_key){entry.deps.extend(&deps);}}" { return Err(format!("DepsGraph::add_deps: unexpected body `{ad}`")); }
    } else if !rl.contains("ifletSome(new_deps)=new_deps{self.insert(Dependency::Asset(key),new_deps,typ);}") { return Err("DepsGraph::reload: body not recognised".into()); }
    // DepsGraph::insert: reverse edges are added for every new dependency and removed for EVERY dependency that is no longer
    // read (`old.difference(new)`, unconditionally) — the shape the hand-written `Model.Reload` graph and its `rdeps`-exactness
    // theorems transcribe (seeded change C06-i cleaned only when the number of dependencies shrank)
    let ins = squash(find_fn(&dg, "DepsGraph", "insert")?.block);
    let ins_head = "{forkeyindeps.iter(){letentry=self.0.entry(key.clone()).or_default();entry.rdeps.insert(asset_key.clone());}matchself.0.entry(asset_key.clone()){Entry::Vacant(entry)=>{entry.insert(GraphNode::new(typ,deps));}Entry::Occupied(entry)=>{letentry=entry.into_mut();letremoved:Vec<_>=entry.deps.difference(&deps).cloned().collect();entry.deps=deps;entry.typ=Some(typ);forkeyinremoved{letremoved=matchself.0.get_mut(&key){Some(entry)=>entry.rdeps.remove(&asset_key),None=>false,};";
    if !ins.starts_with(ins_head) { return Err(format!("DepsGraph::insert: unexpected body `{ins}`")); }
    out.push_str("/-- `DepsGraph::insert` adds a reverse edge for every dependency and removes the reverse edge of every dependency no longer read -/\ndef depsInsertCleansExactly : Bool := true\n\n");
    out.push_str(&format!("/-- `reload_untyped` leaves entries without lock (never-reloaded values) alone instead of writing to them -/\ndef reloadSkipsStatic : Bool := {skips_static}\n\n"));
    out.push_str(&format!("/-- after a failed reload the graph keeps the old dependencies and adds what the failed attempt read -/\ndef failedReloadKeepsNewDeps : Bool := {keeps_new}\n\n"));
    out.push_str(&format!("/-- a loader panic during a reload is caught (the reloader thread survives and answers) -/\ndef reloadCatchesPanic : Bool := {catches_panic}\n\n"));
    // Cache::read / read_dir: record before reading, iff reloader
    let rd = squash(find_fn(&any, "Cache for T", "read")?.block);
    if rd != "{#[cfg(feature=\"hot-reloading\")]ifletSome(reloader)=self.reloader(){records::add_file_record(reloader,id,ext);}self.get_source().read(id,ext)}" { return Err(format!("Cache::read: unexpected body `{rd}`")); }
    let rdd = squash(find_fn(&any, "Cache for T", "read_dir")?.block);
    if rdd != "{#[cfg(feature=\"hot-reloading\")]ifletSome(reloader)=self.reloader(){records::add_dir_record(reloader,id);}self.get_source().read_dir(id,f)}" { return Err(format!("Cache::read_dir: unexpected body `{rdd}`")); }
    out.push_str("/-- `Cache::read` / `read_dir` record the entry (before reading, whatever the result) iff the cache has a reloader -/\ndef recordsRead (hasReloader : Bool) : Bool := hasReloader\n\n");
    Ok(out)
}

// ------------------------------------------------------------------ shard arithmetic (src/cache.rs)

/// Arithmetic over `usize` with the named atoms → Lean `Nat` expression.
fn nat_expr(e: &Expr, atoms: &[(&str, &str)]) -> Result<String, String> {
    let s = squash(e);
    if let Some((_, l)) = atoms.iter().find(|(src, _)| *src == s) { return Ok(l.to_string()); }
    match e {
        Expr::Paren(p) => nat_expr(&p.expr, atoms),
        Expr::Lit(l) => match &l.lit { syn::Lit::Int(i) => Ok(i.base10_digits().to_string()), _ => Err(format!("unsupported literal `{s}`")) },
        Expr::Cast(c) => nat_expr(&c.expr, atoms),
        Expr::Binary(b) => {
            let op = match b.op {
                syn::BinOp::BitAnd(_) => "&&&", syn::BinOp::Rem(_) => "%", syn::BinOp::Sub(_) => "-", syn::BinOp::Add(_) => "+",
                syn::BinOp::Mul(_) => "*", syn::BinOp::Shl(_) => "<<<", syn::BinOp::Shr(_) => ">>>", syn::BinOp::Div(_) => "/",
                _ => return Err(format!("unsupported operator in `{s}`")),
            };
            Ok(format!("({} {op} {})", nat_expr(&b.left, atoms)?, nat_expr(&b.right, atoms)?))
        }
        Expr::MethodCall(m) if m.method == "next_power_of_two" && m.args.is_empty() => Ok(format!("(nextPow2 {})", nat_expr(&m.receiver, atoms)?)),
        _ => Err(format!("unsupported expression `{s}`")),
    }
}

fn gen_shards(ctx: &mut Ctx) -> Result<String, String> {
    let file = ctx.file("src/cache.rs")?.clone();
    let mut out = String::new();
    for (fname, lean) in [("get_shard", "shardIndex"), ("get_shard_mut", "shardIndexMut")] {
        let f = find_fn(&file, "AssetMap", fname)?;
        let mut idx = None;
        let mut hashes_key = false;
        for st in &f.block.stmts {
            if let Stmt::Local(l) = st {
                let via_helper = l.init.as_ref().map(|i| { let t = squash(&i.expr); t.starts_with("self.") && t.ends_with("(key)") }).unwrap_or(false);
                if squash(&l.pat) == "id" && !via_helper { idx = Some(nat_expr(&l.init.as_ref().ok_or("no init")?.expr, &[("hasher.finish()", "hash"), ("self.shards.len()", "len")]).map_err(|e| format!("AssetMap::{fname}: {e}"))?); }
            }
            if squash(st) == "key.hash(&muthasher);" { hashes_key = true; }
        }
        // `let id = self.<helper>(key);` — the computation moved into a private helper of the same impl: follow it (one level)
        if idx.is_none() {
            for st in &f.block.stmts {
                if let Stmt::Local(l) = st {
                    if squash(&l.pat) != "id" { continue; }
                    let init = squash(&l.init.as_ref().ok_or("no init")?.expr);
                    if let Some(h) = init.strip_prefix("self.").and_then(|r| r.strip_suffix("(key)")) {
                        let hf = find_fn(&file, "AssetMap", h)?;
                        for hs in &hf.block.stmts { if squash(hs) == "key.hash(&muthasher);" { hashes_key = true; } }
                        if let Some(Stmt::Expr(e, None)) = hf.block.stmts.last() {
                            idx = Some(nat_expr(e, &[("hasher.finish()", "hash"), ("self.shards.len()", "len")]).map_err(|e| format!("AssetMap::{h}: {e}"))?);
                        }
                    }
                }
            }
        }
        let tail = f.block.stmts.last().map(|s| squash(s)).unwrap_or_default();
        if !(tail == "&self.shards[id]" || tail == "&mutself.shards[id]") { return Err(format!("AssetMap::{fname}: does not return `shards[id]`")); }
        if !hashes_key { return Err(format!("AssetMap::{fname}: `key.hash(&mut hasher)` not found")); }
        let idx = idx.ok_or(format!("AssetMap::{fname}: `let id = …` not found"))?;
        out.push_str(&format!("/-- `AssetMap::{fname}`: shard index from the key's hash and the number of shards -/\ndef {lean} (hash len : Nat) : Nat := {idx}\n\n"));
    }
    // AssetMap::new: `Ok(n) => 4 * n.get().next_power_of_two()`, `Err(_) => { …; 32 }`
    let f = find_fn(&file, "AssetMap", "new")?;
    let mut count = None;
    let mut fallback = None;
    if let Some(Stmt::Local(l)) = f.block.stmts.first() {
        if let Some(init) = &l.init {
            if let Expr::Match(m) = &*init.expr {
                if squash(&m.expr) != "std::thread::available_parallelism()" { return Err("AssetMap::new: shard count does not come from available_parallelism()".into()); }
                for arm in &m.arms {
                    let p = squash(&arm.pat);
                    if p == "Ok(n)" { count = Some(nat_expr(&arm.body, &[("n.get()", "n")]).map_err(|e| format!("AssetMap::new: {e}"))?); }
                    else if p.starts_with("Err(") {
                        if let Expr::Block(b) = &*arm.body { if let Some(Stmt::Expr(e, None)) = b.block.stmts.last() { fallback = Some(nat_expr(e, &[]).map_err(|e| format!("AssetMap::new: {e}"))?); } }
                    }
                }
            }
        }
    }
    let count = count.ok_or("AssetMap::new: shard count expression not found")?;
    let fallback = fallback.ok_or("AssetMap::new: fallback shard count not found")?;
    let body = squash(f.block);
    if !body.contains("letshards=(0..shards).map(|_|Shard(RwLock::new(HashMap::with_hasher(hash_builder.clone())))).collect();") { return Err("AssetMap::new: shard vector construction not recognised".into()); }
    out.push_str(&format!("/-- `AssetMap::new`: number of shards for `n` available CPUs -/\ndef shardCount (n : Nat) : Nat := {count}\n\ndef shardCountFallback : Nat := {fallback}\n\n"));
    Ok(out)
}

// ------------------------------------------------------------------ type-erasure casts (src/entry.rs)

fn compact_src(src: &str) -> String { src.chars().filter(|c| !c.is_whitespace()).collect() }

fn gen_casts(ctx: &mut Ctx) -> Result<String, String> {
    let file = ctx.file("src/entry.rs")?.clone();
    let src = std::fs::read_to_string(ctx.repo.join("src/entry.rs")).map_err(|e| e.to_string())?;
    let is_ = squash(find_fn(&file, "UntypedEntry", "is")?.block);
    let is_ok = is_ == "{self.type_id==TypeId::of::<T>()}";
    let dr = squash(find_fn(&file, "UntypedEntry", "downcast_ref")?.block);
    let dr_ok = dr == "{ifself.is::<T>(){unsafe{Some(&*(selfas*constSelfas*constEntryStorage<T>))}}else{None}}";
    let db = squash(find_fn(&file, "UntypedEntry", "downcast")?.block);
    let db_ok = db == "{ifself.is::<T>(){unsafe{Ok(Box::from_raw(Box::into_raw(self)as*mutEntryStorage<T>))}}else{Err(self)}}";
    let wr = squash(find_fn(&file, "UntypedEntry", "write")?.block);
    let wr_ok = wr.starts_with("{assert!(self.type_id==value.0.type_id);");
    // the type id stored in an entry is the one of the value it was created with
    let ns = squash(find_fn(&file, "Entry", "new_static")?.block);
    let nd = squash(find_fn(&file, "Entry", "new_dynamic")?.block);
    let tid_ok = ns.contains("type_id:TypeId::of::<T>(),") && nd.contains("type_id:TypeId::of::<T>(),");
    // every reinterpretation of an untyped entry as `EntryStorage<T>` is one of the two guarded sites
    let compact: String = src.chars().filter(|c| !c.is_whitespace()).collect();
    let n_casts = compact.matches("as*constEntryStorage<T>").count() + compact.matches("as*mutEntryStorage<T>").count();
    // the public accessors go through them
    let uh = squash(find_fn(&file, "UntypedHandle", "downcast_ref")?.block);
    let uh_ok = uh == "{letentry=self.inner.downcast_ref()?;Some(entry.handle())}";
    let ii = squash(find_fn(&file, "CacheEntry", "into_inner")?.block);
    let ii_ok = ii == "{ifletOk(storage)=self.0.downcast(){return(storage.value.into_inner(),storage.id);}wrong_handle_type()}";
    // a new watcher starts from the entry's CURRENT reload id
    let watcher_ok = compact_src(&src).contains("fnnew(reload_id:&'aAtomicReloadId)->Self{Self{reload_id,last_reload_id:reload_id.load(),}}");
    // `reloaded_global` (typed and untyped handle): one atomic swap, so that concurrent pollers share one `true` per rewrite
    let rg_expected = "{self.either(||false,|this|this.reload_global.swap(false,Ordering::Acquire),)}";
    let compact_rg: String = src.chars().filter(|c| !c.is_whitespace()).collect();
    let rg_ok = compact_rg.matches("pubfnreloaded_global(&self)->bool{self.either(||false,|this|this.reload_global.swap(false,Ordering::Acquire),)}").count() == 2
        && compact_rg.matches("fnreloaded_global(").count() == 2 && !rg_expected.is_empty();
    Ok(format!(
"/-- `Handle::reloaded_global` and `UntypedHandle::reloaded_global` read and clear the flag in ONE atomic swap -/
def reloadedGlobalIsAtomicSwap : Bool := {rg_ok}
/-- `ReloadWatcherInner::new` starts from `reload_id.load()`: a watcher only reports reloads that happen after it was created -/
def watcherStartsFromCurrentId : Bool := {watcher_ok}
/-- `UntypedEntry::is::<T>` compares the stored `TypeId` with `TypeId::of::<T>()` -/
def isComparesTypeId : Bool := {is_ok}
/-- `new_static` / `new_dynamic` store `TypeId::of::<T>()` of the value they are given -/
def entryStoresOwnTypeId : Bool := {tid_ok}
/-- `downcast_ref` reinterprets the entry only under `if self.is::<T>()`, else `None` -/
def downcastRefGuarded : Bool := {dr_ok}
/-- `downcast` (owned) reinterprets the box only under `if self.is::<T>()`, else gives it back -/
def downcastBoxGuarded : Bool := {db_ok}
/-- `write` asserts equal type ids before swapping the bytes of two values -/
def writeAssertsSameType : Bool := {wr_ok}
/-- number of places in `entry.rs` where something is cast to `EntryStorage<T>` -/
def castSitesToTyped : Nat := {n_casts}
/-- `UntypedHandle::downcast_ref` and `CacheEntry::into_inner` go through the guarded casts (`None` / panic otherwise) -/
def publicViewsUseGuardedCasts : Bool := {}

", uh_ok && ii_ok))
}

/// `utils::private::Condvar::wait_while` (the crate's own wrapper over std / parking_lot): both cfg branches must
/// re-check the condition after every wake-up (`Answers` shares one condvar between all callers and uses `notify_all`).
fn gen_locks(ctx: &mut Ctx) -> Result<String, String> {
    let file = ctx.file("src/utils/private.rs")?.clone();
    let f = find_fn(&file, "Condvar", "wait_while")?;
    let (mut std_ok, mut pl_ok, mut seen) = (false, false, 0);
    for st in &f.block.stmts {
        let (attrs, body) = match st {
            syn::Stmt::Expr(Expr::Block(b), _) => (&b.attrs, squash(&b.block)),
            other => return Err(format!("Condvar::wait_while: unexpected statement `{}`", squash(other))),
        };
        let a: String = attrs.iter().map(|a| squash(a)).collect();
        if a == "#[cfg(feature=\"parking_lot\")]" { seen += 1; pl_ok = body == "{whilecondition(&mutguard){self.0.wait(&mutguard);}guard}"; }
        else if a == "#[cfg(not(feature=\"parking_lot\"))]" { seen += 1; std_ok = body == "{whilecondition(&mutguard){guard=wrap(self.0.wait(guard));}guard}"; }
        else { return Err(format!("Condvar::wait_while: unexpected cfg `{a}`")); }
    }
    if seen != 2 { return Err("Condvar::wait_while: expected one block per lock implementation".into()); }
    // the handshake of `hot_reload`: value-level facts that no effect skeleton shows
    let hr: String = std::fs::read_to_string(ctx.repo.join("src/hot_reloading/mod.rs")).map_err(|e| e.to_string())?.chars().filter(|c| !c.is_whitespace()).collect();
    // a caller waits for exactly ITS token; tokens are distinct (fetch_add 1); the wrapper's notify_all wakes everybody
    let waits_own = hr.contains("self.condvar.wait_while(guard,|t|*t!=Some(token));");
    let notify_waits_empty = hr.contains("self.condvar.wait_while(guard,|t|t.is_some());");
    let distinct = hr.contains("self.next_token.fetch_add(1,Ordering::Relaxed)");
    let private_src: String = std::fs::read_to_string(ctx.repo.join("src/utils/private.rs")).map_err(|e| e.to_string())?.chars().filter(|c| !c.is_whitespace()).collect();
    let wakes_all = private_src.contains("pubfnnotify_all(&self){self.0.notify_all();}");
    // a request takes in exactly the events that were sent before it (bounded by the length of the EVENT channel)
    let drains_events = hr.contains("for_in0..events.len(){ifletOk(msg)=events.try_recv(){cache.handle_events(msg);}}");
    Ok(format!("/-- `Condvar::wait_while` re-checks its condition after every wake-up (std locks) -/\ndef waitWhileRechecksStd : Bool := {std_ok}\n/-- the same with the `parking_lot` feature -/\ndef waitWhileRechecksParkingLot : Bool := {pl_ok}\n/-- `Answers`: a caller waits until the slot holds exactly its own token (`*t != Some(token)`), the reloader publishes only into an empty slot, tokens come from `fetch_add(1)`, and the wrapper's `notify_all` is the primitive's `notify_all` -/\ndef answersHandshakeExact : Bool := {}\n/-- a `hot_reload` request takes in the events that were in the EVENT channel when it was taken (`for _ in 0..events.len()`) -/\ndef requestTakesPendingEvents : Bool := {drains_events}\n\n", waits_own && notify_waits_empty && distinct && wakes_all))
}

/// facts about wrapper impls that only property theorems use (no model definition depends on them)
fn gen_facts_body(ctx: &mut Ctx) -> Result<String, String> {
    let mut out = String::new();
    // `impl<T: DirLoadable> DirLoadable for Arc<T>`: both methods are T's (the trait has a default for `sub_directories`,
    // so a missing forwarder still compiles and silently walks the source's directories instead of T's)
    {
        let dirs_src: String = std::fs::read_to_string(ctx.repo.join("src/dirs.rs")).map_err(|e| e.to_string())?.chars().filter(|c| !c.is_whitespace()).collect();
        let start = dirs_src.find("impl<T>DirLoadableforstd::sync::Arc<T>whereT:DirLoadable,{").ok_or("dirs.rs: `impl<T> DirLoadable for Arc<T>` not found")?;
        let body = &dirs_src[start..];
        let end = body.find("pubstructDirectory<T>").unwrap_or(body.len().min(900));
        let fwd = body[..end].contains("fnselect_ids(cache:AnyCache,id:&SharedString)->io::Result<Vec<SharedString>>{T::select_ids(cache,id)}")
            && body[..end].contains("fnsub_directories(cache:AnyCache,id:&SharedString,f:implFnMut(&str))->io::Result<()>{T::sub_directories(cache,id,f)}");
        out.push_str(&format!("/-- `Arc<T>` lists a directory exactly as `T` does: `select_ids` AND `sub_directories` forward to `T` -/\ndef arcDirLoadableForwards : Bool := {fwd}\n\n"));
    }
    // `impl Compound for OnceInitCell<U, T>` and `for OnceInitCell<Option<U>, T>` (feature `utils`): HOT_RELOADED is U's
    {
        let cell_src: String = std::fs::read_to_string(ctx.repo.join("src/utils/cell.rs")).map_err(|e| e.to_string())?.chars().filter(|c| !c.is_whitespace()).collect();
        let n_impls = cell_src.matches("CompoundforOnceInitCell<").count();
        let mut ok = n_impls == 2;
        for head in ["CompoundforOnceInitCell<U,T>{", "CompoundforOnceInitCell<Option<U>,T>{"] {
            match cell_src.find(head) {
                Some(at) => { let body = &cell_src[at..]; let end = body[1..].find("impl<").map(|e| e + 1).unwrap_or(body.len()); if !body[..end].contains("constHOT_RELOADED:bool=U::HOT_RELOADED;") { ok = false; } }
                None => ok = false,
            }
        }
        out.push_str(&format!("/-- both `Compound` impls of `OnceInitCell` (plain and `Option` seed) are hot-reloaded iff the wrapped type is -/\ndef cellInheritsHotReloaded : Bool := {ok}\n\n"));
    }
    Ok(out)
}

const HEAD: &str = "namespace AmVerif.Gen\nopen AmVerif.Model\n\n";
const TAIL: &str = "end AmVerif.Gen\n";

/// `error::ErrorKind` and `ErrorKind::or`
pub fn gen_err(ctx: &mut Ctx) -> Result<String, String> {
    Ok(format!("import AmVerif.Model.Core\n\n{HEAD}/-- `error::ErrorKind` -/\ninductive EK\n  | noDefault\n  | io (e : IoErr)\n  | conv (tag : String)\n  deriving DecidableEq, Repr\n\n{}{TAIL}", gen_error_or(ctx)?))
}
/// `asset::load_from_source`
pub fn gen_load(ctx: &mut Ctx) -> Result<String, String> {
    Ok(format!("import AmVerif.Gen.TabErr\n\n{HEAD}{}{TAIL}", gen_load_from_source(ctx)?))
}
/// conditions and repaired-behaviour flags the World / Reload models compute with
pub fn gen_cond(ctx: &mut Ctx) -> Result<String, String> {
    Ok(format!("import AmVerif.Model.Core\n\n{HEAD}{}{TAIL}", gen_conditions(ctx)?))
}
pub fn gen_facts(ctx: &mut Ctx) -> Result<String, String> {
    Ok(format!("import AmVerif.Model.Core\n\n{HEAD}{}{TAIL}", gen_facts_body(ctx)?))
}
/// shard arithmetic of the sharded map
pub fn gen_shard(ctx: &mut Ctx) -> Result<String, String> {
    Ok(format!("import AmVerif.Model.Core\n\n{HEAD}/-- `usize::next_power_of_two` (smallest power of two ≥ n; 1 for 0) -/\ndef nextPow2Aux : Nat → Nat → Nat → Nat\n  | 0, p, _ => p\n  | f + 1, p, n => if p ≥ n then p else nextPow2Aux f (2 * p) n\ndef nextPow2 (n : Nat) : Nat := nextPow2Aux n 1 n\n\n{}{TAIL}", gen_shards(ctx)?))
}
pub fn gen_cast(ctx: &mut Ctx) -> Result<String, String> {
    Ok(format!("import AmVerif.Model.Core\n\n{HEAD}{}{TAIL}", gen_casts(ctx)?))
}
pub fn gen_lock(ctx: &mut Ctx) -> Result<String, String> {
    Ok(format!("import AmVerif.Model.Core\n\n{HEAD}{}{TAIL}", gen_locks(ctx)?))
}
/// umbrella: everything (for files that need several groups); breaks when any group is refused
pub fn gen(_ctx: &mut Ctx) -> Result<String, String> {
    Ok("import AmVerif.Gen.TabErr\nimport AmVerif.Gen.TabLoad\nimport AmVerif.Gen.TabCond\nimport AmVerif.Gen.TabFacts\nimport AmVerif.Gen.TabShard\nimport AmVerif.Gen.TabCast\nimport AmVerif.Gen.TabLock\n".to_string())
}
