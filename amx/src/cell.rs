//! `OnceInitCell` (src/utils/cell.rs) → `Gen/Cell.lean` (property C17).
//!
//! Emits (1) the statement order of `get_or_try_init_default` / `get_or_try_init_no_drop` as step
//! programs over `AmVerif.Model.Cell.Tok` — which statements run inside the `OnceCell` closure,
//! where the user's initialiser is called (with `?`), where the union is written, where the seed
//! escapes and where it is dropped — and (2) small decision tables: which implementation
//! `get_or_try_init` picks from `needs_drop::<U>()`, which union arm `Drop` and `get` pick from the
//! once state, how `new` / `with_value` set up once state and arm.
//!
//! Every statement has to match one of the forms below *exactly* (modulo whitespace and trailing
//! commas); anything else is refused.

use crate::{find::find_fn, Ctx};
use quote::ToTokens;
use syn::{Expr, Stmt};

fn norm(t: &dyn ToTokens) -> String {
    let s: String = t.to_token_stream().to_string().chars().filter(|c| !c.is_whitespace()).collect();
    s.replace(",}", "}").replace(",)", ")")
}

/// The body of these functions is a single `unsafe { … }` block.
fn unsafe_body<'a>(b: &'a syn::Block, who: &str) -> Result<&'a [Stmt], String> {
    match b.stmts.as_slice() {
        [Stmt::Expr(Expr::Unsafe(u), None)] => Ok(&u.block.stmts),
        _ => Err(format!("{who}: body is not a single unsafe block")),
    }
}

fn simple_stmt(s: &Stmt, in_closure: bool, last: bool, who: &str) -> Result<&'static str, String> {
    let n = norm(s);
    let tok = match (n.as_str(), in_closure) {
        ("letmutuninit_value=None;", false) => "slotNone",
        ("letstate=&mut*self.data.get();", true) => "borrow",
        ("letvalue=f(&mutstate.uninit)?;", true) => "callF",
        ("letnew_state=State{init:ManuallyDrop::new(value)};", true) => "mkState",
        ("letuninit=std::mem::replace(state,new_state).uninit;", true) => "replace",
        ("*state=State{init:ManuallyDrop::new(value)};", true) => "overwrite",
        ("uninit_value=Some(ManuallyDrop::into_inner(uninit));", true) => "escape",
        ("drop(ManuallyDrop::into_inner(uninit));", true) | ("drop_cold(ManuallyDrop::into_inner(uninit));", true) => "dropTmp",
        ("Ok(())", true) if last => "closureOk",
        ("ifletSome(value)=uninit_value{drop_cold(value);}", false) | ("ifletSome(value)=uninit_value{drop(value);}", false) => "dropEscaped",
        ("Ok(self.get_unchecked())", false) if last => "ret",
        _ => return Err(format!("{who}: unsupported statement {} the once-closure: `{}`", if in_closure { "inside" } else { "outside" }, s.to_token_stream())),
    };
    Ok(tok)
}

/// `self.once.get_or_try_init(|| { … })?;`
fn once_call(s: &Stmt) -> Option<&syn::ExprClosure> {
    let e = match s { Stmt::Expr(Expr::Try(t), Some(_)) => &*t.expr, _ => return None };
    let m = match e { Expr::MethodCall(m) => m, _ => return None };
    if norm(&m.receiver) != "self.once" || m.method != "get_or_try_init" || m.args.len() != 1 { return None; }
    match &m.args[0] { Expr::Closure(c) if c.inputs.is_empty() && c.capture.is_none() => Some(c), _ => None }
}

fn program(file: &syn::File, name: &str) -> Result<Vec<&'static str>, String> {
    let f = find_fn(file, "OnceInitCell", name)?;
    let sig = norm(f.sig);
    let want = format!("fn{name}<E>(&self,f:implFnOnce(&mutU)->Result<T,E>)->Result<&T,E>");
    if sig != want { return Err(format!("{name}: unexpected signature `{}`", f.sig.to_token_stream())); }
    let stmts = unsafe_body(f.block, name)?;
    let mut out = vec![];
    let mut seen_once = 0;
    for (k, s) in stmts.iter().enumerate() {
        if let Some(c) = once_call(s) {
            seen_once += 1;
            out.push("onceEnter");
            let body = match &*c.body { Expr::Block(b) => &b.block.stmts, _ => return Err(format!("{name}: once-closure body is not a block")) };
            for (j, cs) in body.iter().enumerate() {
                if once_call(cs).is_some() { return Err(format!("{name}: nested once call")); }
                out.push(simple_stmt(cs, true, j + 1 == body.len(), name)?);
            }
            if out.last() != Some(&"closureOk") { return Err(format!("{name}: the once-closure does not end in `Ok(())`")); }
            out.push("onceExit");
        } else {
            out.push(simple_stmt(s, false, k + 1 == stmts.len(), name)?);
        }
    }
    if seen_once != 1 { return Err(format!("{name}: expected exactly one `self.once.get_or_try_init(..)?` statement, found {seen_once}")); }
    if out.last() != Some(&"ret") { return Err(format!("{name}: does not end in `Ok(self.get_unchecked())`")); }
    Ok(out)
}

fn arm_of(field: &str, who: &str) -> Result<&'static str, String> {
    match field { "uninit" => Ok(".uninit"), "init" => Ok(".init"), o => Err(format!("{who}: unknown union arm `{o}`")) }
}

/// `match <scrutinee> { Some(_) => a, None => b }` → (scrutinee, a, b), all normalised
fn some_none_match(e: &Expr, who: &str) -> Result<(String, String, String), String> {
    let m = match e { Expr::Match(m) => m, _ => return Err(format!("{who}: expected a match")) };
    let (mut some, mut none) = (None, None);
    for a in &m.arms {
        if a.guard.is_some() { return Err(format!("{who}: match guard")); }
        match norm(&a.pat).as_str() {
            "Some(_)" => some = Some(norm(&a.body)),
            "None" => none = Some(norm(&a.body)),
            p => return Err(format!("{who}: unsupported pattern `{p}`")),
        }
    }
    if m.arms.len() != 2 { return Err(format!("{who}: expected two arms")); }
    match (some, none) { (Some(s), Some(n)) => Ok((norm(&m.expr), s, n)), _ => Err(format!("{who}: needs a Some(_) and a None arm")) }
}

fn drop_tables(file: &syn::File) -> Result<String, String> {
    let f = find_fn(file, "Drop for OnceInitCell", "drop")?;
    let stmts = unsafe_body(f.block, "Drop::drop")?;
    let (first, m) = match stmts { [a, Stmt::Expr(m, _)] => (a, m), _ => return Err("Drop::drop: expected `let data = …; match … { … }`".into()) };
    if norm(first) != "letdata=self.data.get_mut();" { return Err(format!("Drop::drop: unsupported statement `{}`", first.to_token_stream())); }
    let (scrut, some, none) = some_none_match(m, "Drop::drop")?;
    if scrut != "self.once.get_mut()" { return Err(format!("Drop::drop: unsupported scrutinee `{scrut}`")); }
    let arm = |body: &str| -> Result<&'static str, String> {
        let p = "ManuallyDrop::drop(&mutdata.";
        if body.starts_with(p) && body.ends_with(')') { arm_of(&body[p.len()..body.len() - 1], "Drop::drop") } else { Err(format!("Drop::drop: unsupported arm body `{body}`")) }
    };
    Ok(format!(
        "/-- `Drop`: union arm whose destructor runs, by whether the once is initialised. -/\ndef dropArm : Bool → Arm\n  | true => {}\n  | false => {}\n",
        arm(&some)?, arm(&none)?
    ))
}

fn get_tables(file: &syn::File) -> Result<String, String> {
    let f = find_fn(file, "OnceInitCell", "get")?;
    let e = match f.block.stmts.as_slice() { [Stmt::Expr(e, None)] => e, _ => return Err("get: body is not a single expression".into()) };
    let (scrut, some, none) = some_none_match(e, "get")?;
    let blocks = match scrut.as_str() { "self.once.get()" => "false", "self.once.wait()" => "true", s => return Err(format!("get: unsupported scrutinee `{s}`")) };
    let res = |b: &str| -> Result<&'static str, String> {
        match b { "unsafe{Some(self.get_unchecked())}" => Ok("some Arm.init"), "None" => Ok("none"), o => Err(format!("get: unsupported arm body `{o}`")) }
    };
    // get_unchecked reads the `init` arm
    let gu = find_fn(file, "OnceInitCell", "get_unchecked")?;
    let gu_body = norm(gu.block);
    let arm = match gu_body.as_str() { "{&(*self.data.get()).init}" => ".init", "{&(*self.data.get()).uninit}" => ".uninit", o => return Err(format!("get_unchecked: unsupported body `{o}`")) };
    let some_s = res(&some)?.replace("Arm.init", &format!("Arm{arm}"));
    Ok(format!(
        "/-- `get`: does the once primitive used block? (`OnceCell::get` does not) -/\ndef getBlocks : Bool := {blocks}\n\n/-- `get`: arm read (or `None`), by whether the once is initialised. -/\ndef getArm : Bool → Option Arm\n  | true => {some_s}\n  | false => {}\n\n/-- arm read by `get_unchecked` (the reference every successful call returns) -/\ndef uncheckedArm : Arm := {arm}\n",
        res(&none)?
    ))
}

fn dispatch_table(file: &syn::File) -> Result<String, String> {
    let f = find_fn(file, "OnceInitCell", "get_or_try_init")?;
    let e = match f.block.stmts.as_slice() { [Stmt::Expr(Expr::If(i), None)] => i, _ => return Err("get_or_try_init: body is not a single `if`".into()) };
    if norm(&e.cond) != "std::mem::needs_drop::<U>()" { return Err(format!("get_or_try_init: unsupported condition `{}`", e.cond.to_token_stream())); }
    let path = |s: String| -> Result<&'static str, String> {
        match s.as_str() { "{self.get_or_try_init_default(f)}" => Ok(".dflt"), "{self.get_or_try_init_no_drop(f)}" => Ok(".noDrop"), o => Err(format!("get_or_try_init: unsupported branch `{o}`")) }
    };
    let t = path(norm(&e.then_branch))?;
    let el = match &e.else_branch { Some((_, b)) => path(norm(&**b))?, None => return Err("get_or_try_init: no else".into()) };
    // get_or_init must go through get_or_try_init
    let gi = find_fn(file, "OnceInitCell", "get_or_init")?;
    // This is a yes/no fact, not a translation: `true` only for exactly the forwarding body, so that any
    // other implementation of the infallible entry point makes the obligation `C17_get_or_init_forwards`
    // fail (and the model answer `unmodelled` for get_or_init calls) while the rest of the module stays usable.
    let via = norm(gi.block) == "{matchself.get_or_try_init(|u|Ok::<_,std::convert::Infallible>(f(u))){Ok(v)=>v,Err(never)=>matchnever{}}}"
        && norm(gi.sig) == "fnget_or_init(&self,f:implFnOnce(&mutU)->T)->&T";
    Ok(format!(
        "/-- `get_or_try_init`: implementation picked, by `needs_drop::<U>()`. -/\ndef dispatch : Bool → Path\n  | true => {t}\n  | false => {el}\n\n/-- Is the body of `get_or_init(f)` exactly `match self.get_or_try_init(|u| Ok::<_, Infallible>(f(u))) {{ Ok(v) => v, Err(never) => match never {{}} }}`,\ni.e. does the infallible entry point have no code path of its own? -/\ndef getOrInitForwards : Bool := {via}\n"
    ))
}

fn ctor_tables(file: &syn::File) -> Result<String, String> {
    let mut out = String::new();
    for (name, lean) in [("new", "new"), ("with_value", "withValue")] {
        let f = find_fn(file, "OnceInitCell", name)?;
        let b = norm(f.block);
        let p1 = "{Self{once:OnceCell::";
        if !b.starts_with(p1) { return Err(format!("{name}: unsupported body `{b}`")); }
        let rest = &b[p1.len()..];
        let (full, rest) = if let Some(r) = rest.strip_prefix("new(),") { ("false", r) } else if let Some(r) = rest.strip_prefix("with_value(()),") { ("true", r) } else { return Err(format!("{name}: unsupported once constructor in `{b}`")) };
        let p2 = "data:UnsafeCell::new(State{";
        let rest = rest.strip_prefix(p2).ok_or(format!("{name}: unsupported data constructor in `{b}`"))?;
        let arm = if rest == "uninit:ManuallyDrop::new(value)})}}" { ".uninit" } else if rest == "init:ManuallyDrop::new(value)})}}" { ".init" } else { return Err(format!("{name}: unsupported state in `{b}`")) };
        out.push_str(&format!("/-- `{name}`: (once initialised?, arm written) -/\ndef {lean}Ctor : Bool × Arm := ({full}, {arm})\n\n"));
    }
    Ok(out)
}

pub fn gen(ctx: &mut Ctx) -> Result<String, String> {
    let file = ctx.file("src/utils/cell.rs")?.clone();
    let mut out = String::from("import AmVerif.Model.CellTok\n\nnamespace AmVerif.Gen.Cell\nopen AmVerif.Model.Cell\n\n");
    for (name, lean) in [("get_or_try_init_default", "initDefault"), ("get_or_try_init_no_drop", "initNoDrop")] {
        let p = program(&file, name)?;
        out.push_str(&format!("/-- statements of `OnceInitCell::{name}` in evaluation order -/\ndef {lean} : List Tok := [{}]\n\n", p.iter().map(|t| format!(".{t}")).collect::<Vec<_>>().join(", ")));
    }
    out.push_str(&dispatch_table(&file)?);
    out.push('\n');
    out.push_str(&drop_tables(&file)?);
    out.push('\n');
    out.push_str(&get_tables(&file)?);
    out.push('\n');
    out.push_str(&ctor_tables(&file)?);
    out.push_str("end AmVerif.Gen.Cell\n");
    Ok(out)
}
