//! Locating functions in parsed files.

use quote::ToTokens;
use syn::{File, ImplItem, Item, TraitItem};

pub fn type_name(t: &syn::Type) -> String {
    // last path segment identifier of the self type, generics dropped
    match t {
        syn::Type::Path(p) => p.path.segments.last().map(|s| s.ident.to_string()).unwrap_or_default(),
        syn::Type::Reference(r) => type_name(&r.elem),
        syn::Type::TraitObject(o) => o
            .bounds
            .iter()
            .filter_map(|b| match b {
                syn::TypeParamBound::Trait(t) => t.path.segments.last().map(|s| format!("dyn {}", s.ident)),
                _ => None,
            })
            .next()
            .unwrap_or_default(),
        other => other.to_token_stream().to_string(),
    }
}

pub struct FnRef<'a> {
    pub sig: &'a syn::Signature,
    pub block: &'a syn::Block,
}

/// `owner` is the self type name (or trait name for default methods; `Trait for Type` for
/// trait impls, e.g. "AssetMap for AssetMap"); "" for a free function.
pub fn find_fn<'a>(file: &'a File, owner: &str, name: &str) -> Result<FnRef<'a>, String> {
    let mut found: Vec<FnRef<'a>> = vec![];
    collect(&file.items, owner, name, &mut found);
    match found.len() {
        1 => Ok(found.pop().unwrap()),
        0 => Err(format!("function `{owner}::{name}` not found")),
        n => Err(format!("function `{owner}::{name}` found {n} times (ambiguous)")),
    }
}

fn has_cfg_test(attrs: &[syn::Attribute]) -> bool {
    attrs.iter().any(|a| {
        a.path().is_ident("cfg") && a.to_token_stream().to_string().replace(' ', "").contains("cfg(test)")
    })
}

pub fn is_verif_cfg(attrs: &[syn::Attribute]) -> bool {
    attrs.iter().any(|a| {
        a.path().is_ident("cfg") && a.to_token_stream().to_string().contains("assets_manager_verif")
    })
}

fn collect<'a>(items: &'a [Item], owner: &str, name: &str, found: &mut Vec<FnRef<'a>>) {
    for it in items {
        match it {
            Item::Fn(f) if owner.is_empty() && f.sig.ident == name && !is_verif_cfg(&f.attrs) => {
                found.push(FnRef { sig: &f.sig, block: &f.block })
            }
            Item::Impl(im) if !is_verif_cfg(&im.attrs) => {
                let ty = type_name(&im.self_ty);
                let this = match &im.trait_ {
                    Some((_, p, _)) => format!("{} for {}", p.segments.last().unwrap().ident, ty),
                    None => ty,
                };
                if this == owner {
                    for ii in &im.items {
                        if let ImplItem::Fn(f) = ii {
                            if f.sig.ident == name && !is_verif_cfg(&f.attrs) {
                                found.push(FnRef { sig: &f.sig, block: &f.block });
                            }
                        }
                    }
                }
            }
            Item::Trait(tr) if tr.ident == owner => {
                for ti in &tr.items {
                    if let TraitItem::Fn(f) = ti {
                        if f.sig.ident == name {
                            if let Some(b) = &f.default {
                                found.push(FnRef { sig: &f.sig, block: b });
                            }
                        }
                    }
                }
            }
            Item::Mod(m) if !has_cfg_test(&m.attrs) && !is_verif_cfg(&m.attrs) => {
                if let Some((_, items)) = &m.content {
                    collect(items, owner, name, found);
                }
            }
            _ => {}
        }
    }
}

pub fn find_const<'a>(file: &'a File, owner: &str, name: &str) -> Result<&'a syn::Expr, String> {
    for it in &file.items {
        if let Item::Impl(im) = it {
            if im.trait_.is_none() && type_name(&im.self_ty) == owner {
                for ii in &im.items {
                    if let ImplItem::Const(c) = ii {
                        if c.ident == name {
                            return Ok(&c.expr);
                        }
                    }
                }
            }
        }
    }
    Err(format!("const `{owner}::{name}` not found"))
}

/// A `fn` item nested in the body of another function.
pub fn find_nested_fn<'a>(file: &'a File, owner: &str, outer: &str, name: &str) -> Result<FnRef<'a>, String> {
    let o = find_fn(file, owner, outer)?;
    for st in &o.block.stmts {
        if let syn::Stmt::Item(Item::Fn(f)) = st {
            if f.sig.ident == name {
                return Ok(FnRef { sig: &f.sig, block: &f.block });
            }
        }
    }
    Err(format!("nested function `{name}` not found in `{owner}::{outer}`"))
}
